"""Prints the markdown tables of seeded changes (DESIGN.md §7.7) from /verif/seeded/*/meta.json, one table per round
(round 1 = seeds -1/-2, round 2 = -3/-4, round 3 = -5/-6, round 4 = -7/-8 unless meta.json carries its own "round" key, as the seeds of round 5 do)."""
import glob
import json
import os
import re

ROOT = os.path.dirname(os.path.dirname(os.path.abspath(__file__)))


def fmt(m):
    return ', '.join('%s:%s' % (k, {0: 'missed', 1: 'DETECTED', 2: 'harness-error'}.get(v, v)) for k, v in m.items()) or '-'


rounds = {1: [], 2: [], 3: [], 4: [], 5: []}
stats = {}
for f in sorted(glob.glob(os.path.join(ROOT, 'seeded', '*', 'meta.json'))):
    d = json.load(open(f))
    n = int(d['seed'].split('-')[1])
    rnd = d.get('round', (n + 1) // 2)
    first = d.get('check_exit', {})
    re_ = d.get('recheck', {})
    note = ' '.join(d.get('what_it_needs', '').split())
    note = re.sub(r'\s+', ' ', note)[:230]
    own = d['property']
    caught = sorted(set(k for k, v in list(first.items()) + list(re_.items()) if v == 1))
    rounds[rnd].append('| %s | %s | %s | %s | %s |' % (d['seed'], note.replace('|', '/'), fmt(first), fmt(re_), ', '.join(caught) or '**none**'))
    st = stats.setdefault(rnd, {'n': 0, 'first_own': 0, 'final': 0, 'final_own': 0})
    st['n'] += 1
    st['first_own'] += 1 if first.get(own) == 1 else 0
    st['final'] += 1 if caught else 0
    st['final_own'] += 1 if own in caught else 0
for rnd in (1, 2, 3, 4, 5):
    if not rounds[rnd]:
        continue
    st = stats[rnd]
    print('**Round %d** — %d seeds; detected by their own property\'s check on the first run: %d; detected now: %d (%d by their own '
          'property\'s check, %d only by a neighbouring one).\n' % (rnd, st['n'], st['first_own'], st['final'], st['final_own'],
                                                                   st['final'] - st['final_own']))
    print('| seed | what it breaks / needs | first run | after strengthening (patch on HEAD) | caught by |')
    print('|---|---|---|---|---|')
    print('\n'.join(rounds[rnd]))
    print()
