"""Prints the markdown table of seeded changes (DESIGN.md §7.7) from /verif/seeded/*/meta.json."""
import glob
import json
import os
import re

ROOT = os.path.dirname(os.path.dirname(os.path.abspath(__file__)))
rows = []
for f in sorted(glob.glob(os.path.join(ROOT, 'seeded', '*', 'meta.json'))):
    d = json.load(open(f))
    first = d.get('check_exit', {})
    re_ = d.get('recheck', {})
    note = ' '.join(d.get('what_it_needs', '').split())
    note = re.sub(r'\s+', ' ', note)[:230]

    def fmt(m):
        return ', '.join('%s:%s' % (k, {0: 'missed', 1: 'DETECTED', 2: 'harness-error'}.get(v, v)) for k, v in m.items()) or '-'
    caught = [k for k, v in list(first.items()) + list(re_.items()) if v == 1]
    rows.append('| %s | %s | %s | %s | %s |' % (d['seed'], note.replace('|', '/'), fmt(first), fmt(re_), ', '.join(sorted(set(caught))) or '**none**'))
print('| seed | what it breaks / needs | first pass | after strengthening (patch on HEAD) | caught by |')
print('|---|---|---|---|---|')
print('\n'.join(rows))
