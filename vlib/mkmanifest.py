"""Regenerates /verif/MANIFEST.json from the table below (single source of truth)."""
import json
import os

ROOT = os.path.dirname(os.path.dirname(os.path.abspath(__file__)))

TECH = 'bounded symbolic execution of the real functions (CrossHair on z3), solver verdict per obligation'

CLAIMS = {
    'C01': dict(
        text='Bounded symbolic verdicts over the real relay code. (1) inductive step of TcpConnection.queue/flush from any buffer of <=2 '
             'elements x every send outcome; (2) inductive step of one event-loop iteration of an established CONNECT tunnel from any '
             'pending-buffer state, any reported-ready subset, any send outcome, followed by a fair drain; (3) k-step tunnel schedules from '
             'the real initial state; (4) plain-HTTP response relay for 8 framings cut at every position under short writes. z3 decides '
             'every path; CONFIRMED means exhaustive within the bounds. The tunnel step also asserts progress (a selectable unread segment is read '
             'whatever else is pending), the buffer step that zero-length elements are retired.',
        note='Trusted: CrossHair 0.0.110 + z3, the plugin models (split/int/struct, validated each run), FakeSocket/connect/selector stubs '
             '(any accepted prefix, EAGAIN, EPIPE, reset), integer clock. Sizes <=3 bytes per element, <=3 steps; kernel TCP outside.',
        ref='DESIGN.md §2 C01'),
    'C03': dict(
        text='For 14 message templates (one behind a PROXY-protocol line) and 9 chunk-stream layouts with symbolic header-value/body/trailing bytes, every single cut position '
             'and the byte-at-a-time feed (thorough: every pair of cuts) is an obligation: piecewise feed vs whole feed of the real '
             'HttpParser/ChunkParser must agree on all public attributes, complete exactly at the last byte, and keep trailing bytes as remainder.',
        note='Trusted: CrossHair + z3, models for bytes.split and int(bytes,16) validated against CPython on every run. Templates bound message '
             'shape; contents are solver variables.',
        ref='DESIGN.md §2 C03'),
}

CLAIMS['C15'] = dict(
    text='parse(build(x)) == x and build(parse(y)) ~ y for requests and responses assembled from symbolic components (header value bytes, '
         'body bytes, reason bytes; methods/status codes/lengths case-split), each output judged by an independent reference reader '
         '(vlib/refhttp.py, cross-checked against h11 every run); to_chunks/ChunkParser inverse for every body of 0..4 symbolic bytes x '
         'chunk size 1..5; update_body for identity/chunked/unsupported encodings. Verdict per obligation is CONFIRMED over all paths.',
    note='Trusted: CrossHair + z3, plugin models, the reference reader. gzip branches run on concrete bodies only (zlib is C code) in the '
         'oracle self-test and are not a solver claim. Status codes are a concrete list.',
    ref='DESIGN.md §2 C15')
CLAIMS['C16'] = dict(
    text='(a) direct SMT queries over bit-vectors translated from the current source of build()/parse_fin_and_rsv/parse_mask_and_payload/'
         'apply_mask: header bytes decode to the same fields and equal the RFC 6455 layout for all flag/opcode/length<126 values; masking '
         'equals RFC XOR and is an involution for symbolic data and key; (b) CrossHair round trip parse(build(f)+T) and byte equality with '
         'an independent RFC 6455 encoder for payload lengths at both length-encoding thresholds, all flags x opcodes, symbolic payload '
         'and trailing bytes, each after an earlier frame with complementary flag bits built in the same process, and parsed a second time '
         'by the same frame object after reset().',
    note='Trusted: z3, the AST->z3 translator (validated on 1000 random inputs per run against the native functions), CrossHair, plugin '
         'models of struct.pack/unpack and io.BytesIO. Masked frames above 127 bytes and the SHA-1/base64 accept token run on concrete '
         'vectors only (reported as concrete_vectors, not a solver claim).',
    ref='DESIGN.md §2 C16',
    technique='SMT (z3 bit-vector) queries on AST-translated kernels + bounded symbolic execution (CrossHair) of build/parse')

CLAIMS['C13'] = dict(
    text='Request path = "/" + up to 5 (thorough 6) characters over {/ . a b % 2 e ?}, each fixed per path by a solver-decided ladder, '
         'plus concrete traversal prefixes, through the real handler -> HttpWebServerPlugin -> serve_static_file against a fake file tree '
         'with files inside, beside (name-prefix sibling) and above the root: 200 only if an independent dot-segment resolver places the path '
         'inside the root and the body equals that file; otherwise exactly the 404 packet; the query never changes the outcome; the same '
         'request repeated on a new connection of the same process gets the same answer; also below /dashboard/ with the shipped dashboard '
         'plugin loaded.',
    note='Trusted: CrossHair + z3; open()/mimetypes stubbed by FakeFS with its own normaliser; pure-Python model of os.path.normpath '
         '(validated each run). gzip replies and files whose name suggests an encoding (.gz, .tgz, .svgz; real mimetypes table) are checked natively on '
         'concrete sequences of requests per process (not a solver claim).',
    ref='DESIGN.md §2 C13')
CLAIMS['C14'] = dict(
    text='Targets assembled from components (absolute / scheme-less / CONNECT authority form; reg-names (ASCII, and one symbolic two-byte UTF-8 character), IPv4, six IPv6 spellings with '
         'symbolic characters; symbolic port 1..65535 or absent; userinfo; symbolic path characters) run through Url.from_bytes and then '
         'through the real handler, connect_upstream and the REAL new_socket_connection down to a stubbed socket module: parsed host/port/path '
         'equal the components, default ports 80/443, exactly one OS-level connect to (host without brackets, port) with the right address '
         'family; damaged targets (incl. port 0) end in 400/502/close without any connect; with a resolve_dns plugin two successive connections '
         'of one worker to the same host each go to their own (symbolic) port.',
    note='Trusted: CrossHair + z3, plugin models; socket.socket/create_connection recorders (raise OverflowError for ports outside 0..65535 '
         'as the OS call does). Component assembly is cross-checked against urllib.parse on concrete samples each run.',
    ref='DESIGN.md §2 C14')
CLAIMS['C18'] = dict(
    text='Every history of bounded length over {subscribe i, unsubscribe i (also unknown/repeated), break channel i, publish, subscribe with an '
         'already broken channel, come back under the same id after the channel broke} with '
         'run_once() after each operation (and, for subscribe/unsubscribe/publish, with the whole history queued before the dispatcher runs), '
         'executed on the real EventDispatcher/EventQueue with list-backed queue and channel stubs; per '
         'channel the received sequence must equal the reference sequence (ack, publishes while subscribed and unbroken in order, unsubscribe '
         'ack), removed/broken channels are closed and evicted, the dispatcher never raises. Opcodes are solver variables fixed per path '
         'by a ladder: a finite table explored by forking; the solver decides path feasibility.',
    note='Trusted: CrossHair + z3, queue/channel stubs, integer clock. Real pipes, threads, pickling are outside.',
    ref='DESIGN.md §2 C18')
CLAIMS['C19'] = dict(
    text='RESTRICTED CLAIM (bookkeeping half only). Proxy.setup()/shutdown() with ListenerPool on stubbed listen(): for every '
         'configuration of primary port / 0..3 additional ports (values chosen by symbolic selectors from a 5-value pool incl. 0) / unix socket '
         '/ 1-2 addresses / port+pid files: every configured (address, port) is listened on, flags.port is the port bound for --port, '
         '[flags.port]+flags.ports is exactly the set of bound TCP ports, the port file lists them primary first, acceptors start after '
         'binding and stop before listeners close, files are removed on shutdown. Every such tuple is also given on the command line and run '
         'natively through FlagParser.initialize (concrete vectors, not a solver claim).',
    note='NOT claimed (not encodable): that endpoints really accept, child processes, real files, execution modes. Stubs: listen(), '
         'AcceptorPool/ThreadlessPool/EventManager recorders, in-memory file system, address stand-ins (ipaddress objects hash through hex(), '
         'which the tracer breaks).',
    ref='DESIGN.md §2 C19')
CLAIMS['C20'] = dict(
    text='(a) is_inactive() == (no pending output and now - last client-side activity > timeout) after every trace of <=3 (thorough 4) events '
         'over {client read, client flush, upstream data, upstream flush, output queued, nothing} with symbolic timeout and symbolic integer '
         'clock increments, on a real established tunnel (also behind a TLS proxy endpoint); (b) the real Threadless._cleanup_inactive on two works reaps exactly the idle ones, also when a handle_events task is still reported pending; '
         '(c) the threaded run() loop leaves at the first iteration where the predicate holds; (d) SMT query on the tick arithmetic '
         'translated from _run_forever: from any tick within a period the reaper fires within period+1 iterations.',
    note='Clock is integer ticks: IEEE rounding of now-last at the threshold is outside the claim. Stubs: Clock, FakeSocket/Selector/Loop, '
         'asyncio.new_event_loop shim.',
    ref='DESIGN.md §2 C20',
    technique='bounded symbolic execution (CrossHair on z3) + one z3 query on an AST-translated kernel')

CLAIMS['C02'] = dict(
    text='Requests assembled from components the harness owns (method incl. a symbolic token, absolute-form target with symbolic path '
         'bytes, headers with symbolic case/value/optional whitespace, Proxy-Connection / Proxy-Authorization / operator-disabled headers, '
         'Content-Length or chunked bodies incl. the empty chunked body) are fed to the real handler whole and cut at every body position, as '
         'first, second and third request of the connection, with the framing header spelled canonically or in lower case; the bytes queued for the origin are read by an independent reference reader and '
         'compared field-wise (method, origin-form target, version, header multiset, Via present, hop-by-hop/disabled absent, decoded body, '
         'self-consistent framing).',
    note='Trusted: CrossHair + z3, plugin models, reference reader (cross-checked against h11 each run), FakeSocket/connect stub.',
    ref='DESIGN.md §2 C02, §7')
CLAIMS['C04'] = dict(
    text='1-2 (thorough 3) requests on one connection through the real executor loop in three roles (forward proxy, web route, reverse '
         'proxy), same/different origins, with/without bodies, packed one per segment / all in one segment / split around the boundary; '
         'upstream stubs answer every complete request; asserts one response per request, in order, from the named origin, requests intact at '
         'each upstream, connection kept; web role with two independent route plugins and an unrouted follow-up (404); the last request '
         'optionally announcing Connection: close; with --enable-conn-pool, a client that leaves with 0-1 answers outstanding followed by a second client asking the same origin (it receives exactly the answer to its own request). FOUR OPEN KNOWN FINDINGS (see known_findings.json, DESIGN 7.6) mask the other-origin '
         '(forward), other-upstream, literal-overtakes and follow-up-Connection-close (reverse proxy) obligations.',
    note='Trusted: CrossHair + z3, executor kit (FakeLoop/FakeSelector/FakeSocket), reference reader. Obligations matching a known finding are '
         'reported as masked_by_known_findings, not as discharged.',
    ref='DESIGN.md §2 C04, §7.6')
CLAIMS['C05'] = dict(
    text='Real Threadless._run_once with two works: a canary running a fixed forward-proxy exchange and an adversary whose request bytes '
         '(one arbitrary byte per run in 11 templates, incl. non-UTF-8), client-side abort (EOF/reset/EIO/EPIPE), upstream connect outcome '
         '(refused/timeout/resolution failure/unreachable) and upstream abort are chosen per obligation/solver, in forward, web and reverse '
         'roles, plus a websocket route (handshake, then frames with arbitrary length/opcode byte) and descriptor-number reuse while an '
         'adversary that never drains loses its upstream, and adversaries that go quiet past --timeout and are reaped by the sweep; asserts no exception ever leaves the loop or _cleanup_inactive, every iteration '
         'terminates (call-count watchdog), the canary transcript equals its transcript when run alone, and a connection accepted afterwards '
         'is served.',
    note='Trusted: CrossHair + z3, executor kit; asyncio scheduling is stubbed (tasks complete when created), one adversary at a time.',
    ref='DESIGN.md §2 C05')
CLAIMS['C06'] = dict(
    text='(a) totality: first-request bytes from 13 mutation templates with 2-5 arbitrary bytes in three roles; the outcome must be exactly '
         'one of waiting / served / rejected-with-a-well-formed-canned-response-and-close / clean close, never a queued response on a kept '
         'connection; (a2) bytes following a served web request / a websocket upgrade never yield more responses than requests nor an HTTP '
         'message inside the upgraded stream; (b) every response builder (build_http_response, okResponse, redirects, HttpRequestRejected.response) with symbolic '
         'reason/header/body bytes is judged by the independent reference reader for syntax and length-vs-framing consistency.',
    note='Trusted: CrossHair + z3, reference reader (cross-checked against h11 each run; canned packets additionally judged by h11 as '
         'concrete vectors). Exceptions leaving handle_events count as "closed" here; their effect on the loop is C05.',
    ref='DESIGN.md §2 C06')
CLAIMS['C07'] = dict(
    text='Real executor loop until the client socket is closed, for 8 causes of proxy-initiated close (400, unknown scheme, 407, web 404, '
         'static reply, static 404, 502 after refused connect, upstream data followed by upstream EOF 0-3 iterations later in 1-4 segments) '
         'with solver-chosen fair short-write classes (incl. a spurious wake-up / EAGAIN) on the first writes, small --max-sendbuf-size, and the '
         'client optionally half-closing while the reply is queued (a route\'s keep-alive reply included): bytes received at close() equal the '
         'complete output, no read interest while flushing, no use after close, executor bookkeeping clean; threaded run()/_flush() variant.',
    note='Trusted: CrossHair + z3, executor kit. Fairness (>=1 byte per write) is the property\'s own proviso.',
    ref='DESIGN.md §2 C07')
CLAIMS['C08'] = dict(
    text='With --basic-auth (3 credentials) and a recording user plugin after auth: Proxy-Authorization absent, or the correct value with 1-3 '
         'arbitrary bytes replaced/appended/prepended/inserted/truncated or another scheme token, two symbolic case bits in the header name, '
         'methods incl. CONNECT. Reference decision written independently; unauthorised => exactly the 407 packet, close, no connect, no hook '
         'of the later plugin, also for bytes arriving while the 407 is still queued; authorised => served and no Proxy-Authorization reaches '
         'the origin on the first or the second request (also with an operator-chosen --disable-headers list).',
    note='Trusted: CrossHair + z3, FakeSocket/connect stub; recording plugin loaded through the real flag/plugin loader.',
    ref='DESIGN.md §2 C08')
CLAIMS['C09'] = dict(
    text='1-3 recording plugins with solver-chosen behaviour per (plugin, hook) in {pass, modify, drop, reject}; expected hook order, data '
         'flow, upstream-connect count, forwarded request and client response computed by a reference fold of the documented semantics; '
         'plain and CONNECT requests, follow-up requests (the request after a dropped/modified one runs the chain once and is forwarded); '
         'upstream-chunk and access-log chains; lifecycle hooks exactly once for 9 ways a connection ends on the real executor, without and '
         'with --enable-conn-pool. A finite '
         'behaviour table explored by forking: the solver decides path feasibility only.',
    note='Trusted: CrossHair + z3, executor kit, reference reader.',
    ref='DESIGN.md §2 C09')
CLAIMS['C10'] = dict(
    text='One connection at a time on the real executor for 8 scripts (forward keep-alive, tunnel, web route, web 404, reverse proxy, '
         'garbage, first / follow-up request rejected by a plugin after the upstream connection exists): every prefix followed by a client- or upstream-side abort (EOF, reset, EPIPE, EIO, timeout), connect failures, and idle '
         'reaping under a jumped clock; afterwards every socket opened for the connection is closed and unused, selector map, works, '
         'registered_events_by_work_ids and unfinished are empty; selected histories twice on the same executor. Plus one step of the descriptor bookkeeping (_update_work_events + _cleanup) from a small arbitrary state: two stub works offering solver-chosen descriptors out of {-1, 7, 8}, released in either order - nothing raises, each is shut down once, nothing stays registered.',
    note='Trusted: CrossHair + z3, executor kit. Real descriptors, os.close(work_id) of remote executors and conn-pool mode are outside.',
    ref='DESIGN.md §2 C10')
CLAIMS['C11'] = dict(
    text='RESTRICTED CLAIM (policy wiring only). With the ssl module and the openssl helpers stubbed by recorders: upstream context built from '
         'the configured trust store with CERT_REQUIRED + check_hostname + server_hostname = CONNECT host unless --insecure-tls-interception; '
         'on a failed upstream handshake nothing but the 200 acknowledgement is ever queued and the connection ends; leaf requested with '
         'SAN = host, signed with the configured CA files, cached by host; client wrapped with it after the ack was flushed; plugin opt-out '
         '= opaque byte-exact tunnel; decrypted requests forwarded over the verified session and the response returned intact; '
         'SSLWantReadError on either side of an established session means retry, not teardown; one opting-out plugin among three is enough.',
    note='NOT claimed (not encodable): that OpenSSL verifies, that the leaf chains to the CA, real handshakes. Symbolic: host letters, both '
         'handshake outcomes, cache state, opt-out, payload byte.',
    ref='DESIGN.md §2 C11')
CLAIMS['C12'] = dict(
    text='Route table with static (1 and 3 URLs, explicit/default port, https, with/without path), overlapping, and dynamic routes (Url / '
         'literal response); request path = concrete prefixes + 0-2 symbolic characters, solver-chosen upstream index, methods, a header, '
         'body, --rewrite-host-header on/off: exactly one connect to (URL host, port or 80/443 by scheme), TLS wrap iff https, upstream path '
         '= URL path, Host rewritten iff the option is on, other headers/body preserved, reply relayed unmodified; Host spelled in other letter cases; a follow-up to the same route cut over two reads at 5 positions is forwarded once, intact; no route => 404 + close, '
         'no connect; sequences of 2-3 requests on new connections mixing a dynamic route that adjusts its parsed URL with a static route '
         'naming the same URL (state must not leak between requests).',
    note='Trusted: CrossHair + z3 (regex matching kept symbolic by the engine), reference reader, TcpServerConnection.wrap recorder. The '
         'request sequences are additionally run natively as concrete vectors (functools caches are bypassed by the engine; not a solver claim).',
    ref='DESIGN.md §2 C12')

NOT_BUILT = 'check not built yet in this session (work in progress; see DESIGN.md §2 for the plan)'
NA = {
    'C17': 'mode equivalence depends on OS threads, processes and descriptor passing (send_handle/recv_handle, real select/accept), which '
           'cannot be symbolically executed or soundly stubbed; byte-affecting differences between drivers are covered under C07/C20',
}

ALL = ['C%02d' % i for i in range(1, 21)]


def main():
    checks = []
    for pid in ALL:
        if pid not in CLAIMS:
            continue
        c = CLAIMS[pid]
        checks.append({
            'property_id': pid,
            'quick_cmd': './vcheck %s --tier quick' % pid,
            'thorough_cmd': './vcheck %s --tier thorough' % pid,
            'evidence_file': 'evidence/%s.json' % pid,
            'replay_cmd_template': './vcheck replay {path}',
            'engine': 'crosshair-z3',
            'level_claimed': {'category': 'model_checking', 'text': c['text'], 'design_ref': c['ref']},
            'level_note': c['note'],
            'technique': c.get('technique', TECH),
        })
    na = []
    for pid in ALL:
        if pid in CLAIMS:
            continue
        na.append({'property_id': pid, 'reason': NA.get(pid, NOT_BUILT)})
    m = {
        'version': 1,
        'setup_cmd': './setup.sh',
        'hooks': {
            'guard': 'PROXY_PY_VERIF',
            'enable': 'no source hooks: all stubbing is done from the harness side by monkey-patching module attributes '
                      '(vlib/envkit.py) and CrossHair patches (vlib/plugin.py); checks import proxy.* from /repo as is',
            'baseline_off_cmd': 'cd /repo && /venv/bin/python -m pytest -ra -q -p no:cacheprovider --timeout=900 '
                                '--continue-on-collection-errors',
            'source_commits': [],
            'add_only': True,
        },
        'engines': [{
            'name': 'crosshair-z3', 'path': 'vlib/',
            'serves_properties': sorted(CLAIMS),
            'kind_free_text': 'CrossHair 0.0.110 symbolic execution of the repository\'s own Python functions with z3 5.1 as the deciding '
                              'solver; own plugin models; native replay of every counterexample',
        }],
        'checks': checks,
        'not_applicable': na,
        'notes': 'Every verdict is bounded (see evidence/*.json coverage.bounds / outside_bounds). Genuine defects found are either '
                 'repaired in /repo by "fix:" commits or listed in known_findings.json.',
    }
    json.dump(m, open(os.path.join(ROOT, 'MANIFEST.json'), 'w'), indent=1)
    print('MANIFEST.json: %d checks, %d not_applicable' % (len(checks), len(na)))


if __name__ == '__main__':
    main()
