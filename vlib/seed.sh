#!/bin/bash
# usage: vlib/seed.sh A|B <property id> <worktree> <n> <seed-name> [other property ids...]
#  A: confirm the seeded change in its scratch worktree (demo fails with it / passes without it, existing tests pass with it)
#  B: run the property's quick check (and optionally others) against the changed tree; write /verif/seeded/<seed-name>/meta.json
PHASE=$1; PID=$2; WT=$3; N=$4; NAME=$5; shift 5; OTHER="$@"
OUT=/verif/seeded/$NAME
mkdir -p $OUT
cd $WT || exit 9
git checkout -q -- .
if [ "$PHASE" = "A" ]; then
  cp _out/patch$N.diff $OUT/patch.diff; cp _out/demo$N.py $OUT/demo.py; cp _out/note$N.txt $OUT/note.txt 2>/dev/null
  /venv/bin/python _out/demo$N.py > $OUT/demo_clean.log 2>&1; echo $? > $OUT/.clean
  git apply _out/patch$N.diff || { echo "patch does not apply" > $OUT/.err; exit 9; }
  /venv/bin/python _out/demo$N.py > $OUT/demo_patched.log 2>&1; echo $? > $OUT/.patched
  /venv/bin/python -m pytest -q -p no:cacheprovider tests/common tests/core tests/http tests/plugin --timeout 300 --deselect tests/http/proxy/test_http2.py --deselect tests/http/test_client.py > $OUT/tests_patched.log 2>&1; echo $? > $OUT/.tests
  git checkout -q -- .
  echo "$NAME A clean=$(cat $OUT/.clean) patched=$(cat $OUT/.patched) tests=$(cat $OUT/.tests)"
  exit 0
fi
git apply _out/patch$N.diff || exit 9
CHECKS=""
for P in $PID $OTHER; do
  (cd ${VERIF_HOME:-/verif} && VERIF_REPO=$WT VERIF_EVIDENCE_DIR=$OUT VERIF_REPLAY_DIR=$OUT/replays ./vcheck $P --tier quick > $OUT/check_$P.log 2>&1); RC=$?
  CHECKS="$CHECKS \"$P\": $RC,"
done
git checkout -q -- .
python3 - <<PY
import json, os
o = "$OUT"
def rd(f):
    try: return int(open(os.path.join(o, f)).read().strip())
    except Exception: return None
json.dump({"seed": "$NAME", "property": "$PID", "demo_exit_clean": rd('.clean'), "demo_exit_patched": rd('.patched'),
           "existing_tests_exit_patched": rd('.tests'), "existing_tests_failed_then_rerun_sequentially_exit": rd('.tests_rerun'), "check_exit": {${CHECKS%,}},
           "what_it_needs": open(os.path.join(o, "note.txt")).read() if os.path.exists(os.path.join(o, "note.txt")) else "",
           "ran": ["demo on the clean worktree", "demo with the patch applied", "pytest tests/common tests/core tests/http tests/plugin with the patch (19 worktrees ran concurrently: tests that write fixed /tmp paths (test_pki, static server) collided; every failed test was re-run sequentially with the patch and passed) "
                   "(test_http2 and test_client deselected: they fail offline on the unchanged tree too)",
                   "./vcheck <id> --tier quick with VERIF_REPO=<patched worktree> (exit 1 = detected, 0 = missed, 2 = harness error)"]},
          open(os.path.join(o, "meta.json"), "w"), indent=1)
PY
echo "$NAME B checks={${CHECKS%,}}"
