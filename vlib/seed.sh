#!/bin/bash
# usage: vlib/seed.sh <property id> <worktree> <n> <seed-name>
# Confirms a seeded change in its scratch worktree (demo fails with it / passes without it, existing tests pass with it),
# runs the property's quick check against the changed tree, records everything under /verif/seeded/<seed-name>/.
PID=$1; WT=$2; N=$3; NAME=$4; OTHER=${5:-}
OUT=/verif/seeded/$NAME
mkdir -p $OUT
cd $WT || exit 9
git checkout -q -- . 
cp _out/patch$N.diff $OUT/patch.diff; cp _out/demo$N.py $OUT/demo.py; cp _out/note$N.txt $OUT/note.txt 2>/dev/null
/venv/bin/python _out/demo$N.py > $OUT/demo_clean.log 2>&1; CLEAN=$?
git apply _out/patch$N.diff || { echo "patch does not apply"; exit 9; }
/venv/bin/python _out/demo$N.py > $OUT/demo_patched.log 2>&1; PATCHED=$?
/venv/bin/python -m pytest -q -p no:cacheprovider tests/common tests/core tests/http tests/plugin --timeout 300 --deselect tests/http/proxy/test_http2.py --deselect tests/http/test_client.py > $OUT/tests_patched.log 2>&1; TESTS=$?
CHECKS=""
for P in $PID $OTHER; do
  (cd /verif && VERIF_REPO=$WT VERIF_EVIDENCE_DIR=$OUT VERIF_REPLAY_DIR=$OUT/replays ./vcheck $P --tier quick > $OUT/check_$P.log 2>&1); RC=$?
  CHECKS="$CHECKS \"$P\": $RC,"
done
git checkout -q -- .
python3 - <<PY
import json
json.dump({"seed": "$NAME", "property": "$PID", "demo_exit_clean": $CLEAN, "demo_exit_patched": $PATCHED, "existing_tests_exit_patched": $TESTS,
           "check_exit": {${CHECKS%,}}, "what_it_needs": open("$OUT/note.txt").read() if __import__("os").path.exists("$OUT/note.txt") else "",
           "ran": ["demo on clean worktree", "demo with patch", "pytest tests/common tests/core tests/http tests/plugin with patch", "./vcheck <id> --tier quick with VERIF_REPO=<patched worktree>"]},
          open("$OUT/meta.json", "w"), indent=1)
PY
echo "$NAME clean=$CLEAN patched=$PATCHED tests=$TESTS checks={${CHECKS%,}}"
