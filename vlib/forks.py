"""Debug aid: run one obligation under CrossHair and print where the search forks most.
usage: forks.py <module> <fn> <cfg json> <timeout_s>"""
import collections
import json
import os
import sys
import traceback

HERE = os.path.dirname(os.path.abspath(__file__))
sys.path.insert(0, os.path.dirname(HERE))
sys.path.insert(0, os.environ.get('VERIF_REPO', '/repo'))
from vlib import plugin  # noqa
from crosshair import statespace
from vlib import driver

cnt = collections.Counter()
orig = statespace.StateSpace.choose_possible


def cp(self, expr, *a, **k):
    st = traceback.extract_stack(limit=16)
    key = ' <- '.join('%s:%d' % (f.filename.split('/')[-1], f.lineno) for f in st[:-1][::-1]
                      if 'crosshair' not in f.filename and 'forks.py' not in f.filename)
    r = orig(self, expr, *a, **k)
    cnt[(key[:160], bool(r))] += 1
    return r


statespace.StateSpace.choose_possible = cp
rcnt = collections.Counter()
_ofm = statespace.StateSpace.find_model_value


def fmv(self, expr, *a, **k):
    st = traceback.extract_stack(limit=22)
    key = ' <- '.join('%s:%d' % (f.filename.split('/')[-1], f.lineno) for f in st[:-1][::-1] if 'forks.py' not in f.filename)
    rcnt[key[:400]] += 1
    return _ofm(self, expr, *a, **k)


statespace.StateSpace.find_model_value = fmv
res = driver.analyze(sys.argv[1], sys.argv[2], json.loads(sys.argv[3]), float(sys.argv[4]), False)
print(res['status'], 'paths', res['paths'], 'reached', res['reached_end'])
both = [(cnt[(k, True)], cnt[(k, False)], k) for (k, b) in cnt if b and (k, False) in cnt]
for t, f, k in sorted(both, key=lambda x: -min(x[0], x[1]))[:14]:
    print('T=%d F=%d %s' % (t, f, k))

print('--- realisations (find_model_value) ---')
for k, v in rcnt.most_common(6):
    print(v, k)
