"""Shared scenario pieces for the executor-level harnesses (C04, C05, C10): flag sets per role,
harness-side plugins (a web route, a reverse-proxy route table), canned upstream responses."""
from proxy.common.flag import FlagParser
from proxy.http.exception import HttpRequestRejected
from proxy.http.proxy import HttpProxyBasePlugin
from proxy.http.responses import okResponse
from proxy.http.server import HttpWebServerBasePlugin, ReverseProxyBasePlugin, httpProtocolTypes


class HelloRoute(HttpWebServerBasePlugin):
    """Web-server route plugin: GET /hello<anything> -> 200 with a body naming the request path."""

    def routes(self):
        return [(httpProtocolTypes.HTTP, r'/hello')]

    def handle_request(self, request):
        self.client.queue(okResponse(b'hello:' + (request.path or b''), headers={b'X-Route': b'hello', b'X-Method': request.method or b'-'}))


class ByeRoute(HttpWebServerBasePlugin):
    """A second, independent web-server plugin: GET /bye<anything>. Like real route plugins it answers only what it registered."""

    def routes(self):
        return [(httpProtocolTypes.HTTP, r'/bye')]

    def handle_request(self, request):
        if (request.path or b'').startswith(b'/bye'):
            self.client.queue(okResponse(b'bye:' + (request.path or b''), headers={b'X-Route': b'bye', b'X-Method': request.method or b'-'}))


class WsRoute(HttpWebServerBasePlugin):
    """Websocket route /ws: answers every message with a short text frame."""

    def routes(self):
        return [(httpProtocolTypes.WEBSOCKET, r'/ws$')]

    def handle_request(self, request):
        pass

    def on_websocket_message(self, frame):
        self.client.queue(memoryview(b'\x81\x02ok'))


WS_HANDSHAKE = (b'GET /ws HTTP/1.1\r\nHost: x\r\nUpgrade: websocket\r\nConnection: Upgrade\r\n'
                b'Sec-WebSocket-Key: dGhlIHNhbXBsZSBub25jZQ==\r\nSec-WebSocket-Version: 13\r\n\r\n')
DENY = [False]      # set by the harness: the next request(s) reaching RejectAfterConnect are rejected


class RejectAfterConnect(HttpProxyBasePlugin):
    """Proxy plugin rejecting every request while scen.DENY[0] is set, from handle_client_request, i.e. AFTER the core connected
    upstream (what the shipped FilterByURLRegexPlugin does)."""

    def handle_client_request(self, request):
        if DENY[0]:
            raise HttpRequestRejected(status_code=403, reason=b'Denied', body=b'denied')
        return request


class Routes(ReverseProxyBasePlugin):
    """Reverse-proxy routes: /get -> up1.example:80/get ; /api/.* -> up2.example:8080/v1 ; /both -> either upstream ; /lit -> literal response."""

    def routes(self):
        return [
            (r'/get$', [b'http://up1.example/get']),
            (r'/api/', [b'http://up2.example:8080/v1']),
            (r'/both$', [b'http://up1.example/a', b'http://up2.example:8080/b']),
            (r'/p1$', [b'http://same.example:9001/one']),
            (r'/p2$', [b'http://same.example:9002/two']),
            r'/lit$',
        ]

    def handle_route(self, request, pattern):
        # dynamic route answered locally with a literal response (no upstream involved)
        return memoryview(b'HTTP/1.1 200 OK\r\nX-Origin: literal#/lit\r\nContent-Length: 6\r\n\r\nA:/lit')


FLAGS = {
    'forward': FlagParser.initialize(['--threadless']),
    'forward_pool': FlagParser.initialize(['--threadless', '--enable-conn-pool']),
    'forward_reject': FlagParser.initialize(['--threadless'], plugins=[RejectAfterConnect]),
    'forward_tls': FlagParser.initialize(['--threadless', '--key-file', '/etc/p/key.pem', '--cert-file', '/etc/p/cert.pem']),
    'web': FlagParser.initialize(['--threadless', '--enable-web-server', '--disable-http-proxy'], plugins=[HelloRoute]),
    'webws': FlagParser.initialize(['--threadless', '--enable-web-server', '--disable-http-proxy'], plugins=[HelloRoute, WsRoute]),
    'web2': FlagParser.initialize(['--threadless', '--enable-web-server', '--disable-http-proxy'], plugins=[HelloRoute, ByeRoute]),
    'reverse': FlagParser.initialize(['--threadless', '--enable-reverse-proxy', '--disable-http-proxy'], plugins=[Routes]),
    'all': FlagParser.initialize(['--threadless', '--enable-web-server', '--enable-reverse-proxy'], plugins=[HelloRoute, Routes]),
}


def response(tag, body=b'ok'):
    """A distinguishable canned upstream response."""
    return b'HTTP/1.1 200 OK\r\nX-Origin: ' + tag + b'\r\nContent-Length: ' + (b'%d' % len(body)) + b'\r\n\r\n' + body


class _FirstChoice:
    """random.choice stand-in for executor-level scenarios (CrossHair otherwise mocks `random` with symbolic bits and the
    rejection loop in random._randbelow explodes). The upstream choice itself is C12's subject (solver-chosen index there)."""

    @staticmethod
    def choice(seq):
        return seq[0]


from proxy.http.server import reverse as _rv   # noqa: E402
_rv.random = _FirstChoice
