"""Independent reference HTTP/1.x message reader used as the oracle of C02/C06/C15.

Deliberately written without any proxy.py code. Works on concrete and on CrossHair
symbolic bytes (only find/partition/split/strip/lower/int, which stay symbolic).
`selftest()` cross-checks it against h11 on concrete messages.
"""

TOKEN_EXTRA = b"!#$%&'*+-.^_`|~"


class Malformed(Exception):
    pass


def _is_token(b):
    if len(b) == 0:
        return False
    for c in b:
        if not (48 <= c <= 57 or 65 <= c <= 90 or 97 <= c <= 122 or c in TOKEN_EXTRA):
            return False
    return True


def decode_chunked(rest):
    """Returns (body, trailers, remainder) or raises Malformed('incomplete...')."""
    body = b''
    while True:
        line, sep, rest = rest.partition(b'\r\n')
        if sep == b'':
            raise Malformed('incomplete chunk size line')
        size_part = line.partition(b';')[0].strip()
        if len(size_part) == 0:
            raise Malformed('empty chunk size')
        for c in size_part:
            if not (48 <= c <= 57 or 65 <= c <= 70 or 97 <= c <= 102):
                raise Malformed('bad chunk size')
        size = int(size_part, 16)
        if size == 0:
            break
        if len(rest) < size + 2:
            raise Malformed('incomplete chunk data')
        body = body + rest[:size]
        if rest[size:size + 2] != b'\r\n':
            raise Malformed('chunk data not followed by CRLF')
        rest = rest[size + 2:]
    trailers = []
    while True:
        line, sep, rest = rest.partition(b'\r\n')
        if sep == b'':
            raise Malformed('incomplete chunked terminator')
        if line == b'':
            break
        trailers.append(line)
    return body, trailers, rest


def read_message(data, is_response, head_request=False):
    """Parse one message from `data`. Returns dict(start=(a,b,c), headers=[(lower-name, name, value)],
    body=bytes|None, framing='cl'|'chunked'|'close'|'none', remainder=bytes). Raises Malformed."""
    head, sep, rest = data.partition(b'\r\n\r\n')
    if sep == b'':
        # a message with no header fields: start-line CRLF CRLF
        raise Malformed('no end of header section')
    lines = head.split(b'\r\n')
    start = lines[0]
    parts = start.split(b' ', 2)
    if is_response:
        if len(parts) < 2:
            raise Malformed('status line has fewer than 2 fields')
        version, code = parts[0], parts[1]
        reason = parts[2] if len(parts) == 3 else b''
        if not (version == b'HTTP/1.1' or version == b'HTTP/1.0'):
            raise Malformed('bad version in status line')
        if len(code) != 3 or not (48 <= code[0] <= 57 and 48 <= code[1] <= 57 and 48 <= code[2] <= 57):
            raise Malformed('status code is not 3 digits')
        for c in reason:
            if c == 13 or c == 10:
                raise Malformed('CR/LF in reason')
        st = (version, code, reason)
    else:
        if len(parts) != 3:
            raise Malformed('request line does not have 3 fields')
        method, target, version = parts
        if not _is_token(method):
            raise Malformed('method is not a token')
        if len(target) == 0:
            raise Malformed('empty target')
        for c in target:
            if c <= 32 or c == 127:
                raise Malformed('control/space in target')
        if not (version == b'HTTP/1.1' or version == b'HTTP/1.0'):
            raise Malformed('bad version in request line')
        st = (method, target, version)
    headers = []
    for ln in lines[1:]:
        name, colon, value = ln.partition(b':')
        if colon == b'':
            raise Malformed('header line without colon')
        if not _is_token(name):
            raise Malformed('header name is not a token')
        v = value.strip(b' \t')
        for c in v:
            if c == 13 or c == 10 or c == 0:
                raise Malformed('CR/LF/NUL in header value')
        headers.append((name.lower(), name, v))
    te = [v for (k, n, v) in headers if k == b'transfer-encoding']
    cl = [v for (k, n, v) in headers if k == b'content-length']
    chunked = len(te) > 0 and te[-1].lower() == b'chunked'
    if chunked:
        body, trailers, remainder = decode_chunked(rest)
        framing = 'chunked'
    elif len(cl) > 0:
        for v in cl:
            if v != cl[0]:
                raise Malformed('conflicting content-length')
        if len(cl[0]) == 0:
            raise Malformed('empty content-length')
        for c in cl[0]:
            if not (48 <= c <= 57):
                raise Malformed('content-length is not a number')
        n = int(cl[0])
        no_body = is_response and (head_request or st[1][0] == 49 or st[1] == b'204' or st[1] == b'304')
        if no_body:
            body, remainder = b'', rest
        else:
            if len(rest) < n:
                raise Malformed('body shorter than content-length')
            body, remainder = rest[:n], rest[n:]
        framing = 'cl'
    elif is_response:
        no_body = head_request or st[1][0] == 49 or st[1] == b'204' or st[1] == b'304'
        if no_body:
            body, remainder, framing = b'', rest, 'none'
        else:
            body, remainder, framing = rest, b'', 'close'
    else:
        body, remainder, framing = b'', rest, 'none'
    return {'start': st, 'headers': headers, 'body': body, 'framing': framing, 'remainder': remainder}


def response_wellformed(data, closes_after=None):
    """None if `data` is exactly one syntactically valid, self-consistently framed
    response (nothing after it); else a reason string.
    closes_after: whether the sender closes the connection after it (needed to accept close-delimited)."""
    try:
        m = read_message(data, True)
    except Malformed as e:
        return str(e)
    if m['remainder'] != b'':
        return 'bytes after the end of the response'
    if m['framing'] == 'close':
        conn = [v for (k, n, v) in m['headers'] if k == b'connection']
        if closes_after is False:
            return 'close-delimited body on a connection that stays open'
        if len(m['body']) > 0 and closes_after is None and not (len(conn) > 0 and conn[-1].lower() == b'close'):
            return 'body without content-length/transfer-encoding and without Connection: close'
    return None


# --------------------------------------------------------------------------- #
def h11_response(data):
    """h11's view of a response (concrete bytes): (status, headers, body) or raises."""
    import h11
    c = h11.Connection(h11.CLIENT)
    c.send(h11.Request(method='GET', target='/', headers=[('Host', 'x')]))
    c.send(h11.EndOfMessage())
    c.receive_data(data)
    status = None
    hs = None
    body = b''
    while True:
        ev = c.next_event()
        if ev is h11.NEED_DATA:
            c.receive_data(b'')
            continue
        if isinstance(ev, h11.InformationalResponse):
            continue
        if isinstance(ev, h11.Response):
            status, hs = ev.status_code, [(bytes(k), bytes(v)) for k, v in ev.headers]
        elif isinstance(ev, h11.Data):
            body += bytes(ev.data)
        elif isinstance(ev, (h11.EndOfMessage, h11.ConnectionClosed)):
            break
    return status, hs, body


def h11_request(data):
    import h11
    c = h11.Connection(h11.SERVER)
    c.receive_data(data)
    method = target = hs = None
    body = b''
    while True:
        ev = c.next_event()
        if ev is h11.NEED_DATA:
            raise ValueError('h11: incomplete request')
        if isinstance(ev, h11.Request):
            method, target, hs = bytes(ev.method), bytes(ev.target), [(bytes(k), bytes(v)) for k, v in ev.headers]
        elif isinstance(ev, h11.Data):
            body += bytes(ev.data)
        elif isinstance(ev, h11.EndOfMessage):
            break
    return method, target, hs, body


def selftest():
    """Reference reader vs h11 on concrete messages (canned packets of the repo + hand-made cases)."""
    from proxy.http import responses as R
    from proxy.common.utils import build_http_response, build_http_request
    n = 0
    pk = [getattr(R, k).tobytes() for k in dir(R) if k.endswith('_PKT') or k == 'PROXY_TUNNEL_UNSUPPORTED_SCHEME']
    pk += [R.okResponse(b'hello', {b'X': b'y'}).tobytes(), R.okResponse(b'x' * 100, compress=True, min_compression_length=20).tobytes(),
           R.permanentRedirectResponse(b'http://a/').tobytes(), R.seeOthersResponse(b'/x').tobytes(),
           build_http_response(200, reason=b'OK', headers={b'Transfer-Encoding': b'chunked'}, body=b'3\r\nabc\r\n0\r\n\r\n'),
           build_http_response(204, reason=b'No Content', no_cl=True)]
    for p in pk:
        m = read_message(p, True)
        st, hs, body = h11_response(p)
        assert int(m['start'][1]) == st, (p, st)
        assert m['body'] == body, (p, m['body'], body)
        assert [(k, v) for k, _, v in m['headers']] == hs, (p, hs)
        n += 1
    bad = [b'HTTP/1.1 200 OK\r\nContent-Length: 5\r\n\r\nabc', b'HTTP/1.1 20 OK\r\n\r\n', b'HTTP/1.1 200 OK\r\nX y\r\n\r\n',
           b'HTTP/1.1 200 OK\r\nTransfer-Encoding: chunked\r\n\r\n3\r\nab\r\n0\r\n\r\n', b'HTTP/1.1 200 OK\r\nContent-Length: x\r\n\r\n']
    for p in bad:
        assert response_wellformed(p) is not None, p
        try:
            h11_response(p)
            raise AssertionError('h11 accepted %r' % p)
        except AssertionError:
            raise
        except Exception:
            pass
        n += 1
    reqs = [build_http_request(b'GET', b'/x', headers={b'Host': b'h'}),
            build_http_request(b'POST', b'/x', headers={b'Host': b'h'}, body=b'abc'),
            build_http_request(b'POST', b'/', headers={b'Host': b'h', b'Transfer-Encoding': b'chunked'}, body=b'1\r\nz\r\n0\r\n\r\n')]
    for p in reqs:
        m = read_message(p, False)
        me, tg, hs, body = h11_request(p)
        assert (m['start'][0], m['start'][1]) == (me, tg)
        assert m['body'] == body and [(k, v) for k, _, v in m['headers']] == hs
        n += 1
    return n
