"""C05 — one connection cannot take down or stall the executor serving the others.

Real code: Threadless._run_once/_selected_events/_update_selector/_update_work_events/_create_tasks/_wait_for_tasks/_cleanup/
_cleanup_inactive, ThreadlessFdExecutor.work, and everything under HttpProtocolHandler reached from it
(shutdown, on_client_connection_close, access-log building), ReverseProxy, TcpUpstreamConnectionHandler.
"""
import errno
import socket

from vlib import envkit, scen
from vlib.hk import CFG, begin, ok, fail, skip, B, run, cat, concrete

envkit.install()
CANARY_REQ = b'GET http://canary.example/c HTTP/1.1\r\nHost: canary.example\r\n\r\n'
CANARY_RESP = scen.response(b'canary', b'CANARY-BODY')


def _canary_step(state, env, i):
    """The well-behaved connection's script, driven once per executor iteration."""
    cs = state['cs']
    if state.get('role') in ('web', 'webws'):
        # web-server worker: a keep-alive client of a route, one request now and a follow-up request two iterations later
        if i == 0:
            cs.inq.append(b'GET /hello/c1 HTTP/1.1\r\nHost: x\r\n\r\n')
        elif i == 2 and not cs.closed:
            cs.inq.append(b'GET /hello/c2 HTTP/1.1\r\nHost: x\r\n\r\n')
        return
    if i == 0:
        cs.inq.append(CANARY_REQ)
    us = state.get('us')
    if us is None:
        for addr, s in env.connects:
            if addr[0] == 'canary.example' and not isinstance(s, BaseException):
                us = state['us'] = s
    if us is not None and us.out and not state.get('answered'):
        us.inq.append(CANARY_RESP)
        state['answered'] = True


def _canary_alone(role, k):
    env = envkit.new_env()
    xk = envkit.Executor(scen.FLAGS[role], env)
    st = {'cs': xk.accept('canary'), 'role': role}
    for i in range(k):
        _canary_step(st, env, i)
        e = xk.step()
        if e is not None:
            raise RuntimeError('harness-error: canary alone fails: %r' % (e,))
    us = st.get('us')
    return st['cs'].out, (us.out if us is not None else None), st['cs'].closed


CLOSER_REQ = b'PUT /closer-gets-an-error-reply HTTP/1.1\r\n\r\n' * 1


def _closer_alone(role, k):
    env = envkit.new_env()
    xk = envkit.Executor(scen.FLAGS[role], env)
    cs = xk.accept('closer')
    cs.inq.append(CLOSER_REQ)
    for i in range(k):
        e = xk.step()
        if e is not None:
            raise RuntimeError('harness-error: closer alone fails: %r' % (e,))
    return cs.out, cs.closed


def _err(kind):
    if kind == 1:
        return b''
    if kind == 2:
        return ConnectionResetError(errno.ECONNRESET, 'reset')
    if kind == 3:
        return OSError(errno.EIO, 'io error')
    if kind == 4:
        return TimeoutError(errno.ETIMEDOUT, 'timed out')
    return None


def adversary_bytes(tpl, b):
    if tpl == 'fwd_path':
        return b'GET http://h/' + B(b[0], b[1]) + b' HTTP/1.1\r\n\r\n'
    if tpl == 'fwd_host':
        return b'GET http://' + B(b[0], b[1]) + b'/ HTTP/1.1\r\n\r\n'
    if tpl == 'fwd_ua':
        return b'GET http://h/ HTTP/1.1\r\nUser-Agent: ' + B(b[0], b[1]) + b'\r\n\r\n'
    if tpl == 'fwd_method':
        return B(b[0], b[1]) + b' http://h/ HTTP/1.1\r\n\r\n'
    if tpl == 'connect_host':
        return b'CONNECT ' + B(b[0], b[1]) + b':443 HTTP/1.1\r\n\r\n'
    if tpl == 'raw3':
        return B(b[0], b[1], b[2]) + b'\r\n\r\n'
    if tpl == 'web_path':
        return b'GET /' + B(b[0], b[1]) + b' HTTP/1.1\r\nHost: x\r\n\r\n'
    if tpl == 'web_hello':
        return b'GET /hello' + B(b[0]) + b' HTTP/1.1\r\nHost: ' + B(b[1]) + b'\r\n\r\n'
    if tpl == 'rev_get':
        return b'GET /get HTTP/1.1\r\nHost: ' + B(b[0], b[1]) + b'\r\n\r\n'
    if tpl == 'rev_api':
        return b'GET /api/' + B(b[0], b[1]) + b' HTTP/1.1\r\nHost: x\r\n\r\n'
    if tpl == 'ws':
        # bytes after a completed websocket handshake: FIN+text, a length/mask byte that is arbitrary, then fewer payload bytes than most
        # values of it announce (truncated frame), exactly as many (b0 == 1) or more (b0 == 0)
        return B(0x81, b[0], b[1])
    if tpl == 'ws_ctl':
        # arbitrary first byte (opcode / flags incl. CLOSE, PING, reserved), one-byte payload
        return B(b[0], 0x01, b[1])
    if tpl == 'truncated':
        return b'GET http://h.example/' + B(b[0]) + b' HTT'
    raise ValueError(tpl)


def isolate(b0: int, b1: int, b2: int, cab: int, uab: int, when: int) -> bool:
    """
    pre: 0 <= b0 < 256 and 0 <= b1 < 256 and 0 <= b2 < 256
    pre: 0 <= cab <= 5 and 0 <= uab <= 4 and 0 <= when <= 2
    post: _
    """
    begin()
    role = CFG['role']                 # which flag set the worker runs with
    tpl = CFG['tpl']
    k = CFG['k']
    conn = CFG.get('connect', 'ok')    # outcome of the adversary's upstream connect
    for nm, val in (('cab', cab), ('uab', uab), ('when', when)):
        if nm in CFG and val != CFG[nm]:
            return skip()
    cab, uab, when = CFG.get('cab', cab), CFG.get('uab', uab), CFG.get('when', when)
    closer_on = CFG.get('closer')
    adv_at = CFG.get('adv_at', 0)
    envkit.TASK_ORDER[0] = CFG.get('task_order', 0)
    with concrete():
        alone = _canary_alone(role, k)
        closer_alone = _closer_alone(role, k) if closer_on else None
        env = envkit.new_env()
        env.fd_reuse = bool(CFG.get('fd_reuse'))
        xk = envkit.Executor(scen.FLAGS[role], env)
        cst = {'cs': xk.accept('canary'), 'role': role}
        closer = xk.accept('closer', ('10.7.7.7', 7)) if closer_on == 'before' else None
        admit = CFG.get('admit_fault')
        if admit:
            # TLS-terminating listener: the adversary's handshake fails in this way while its connection is being admitted
            import ssl as _ssl
            env.wrap_faults['adversary'] = {
                'sslerror': _ssl.SSLError(1, '[SSL: WRONG_VERSION_NUMBER] wrong version number'),
                'reset': ConnectionResetError(errno.ECONNRESET, 'Connection reset by peer'),
                'eof': _ssl.SSLEOFError(8, 'EOF occurred in violation of protocol'),
                'timeout': TimeoutError(errno.ETIMEDOUT, 'timed out'),
                'oserror': OSError(errno.EIO, 'io'),
                'value': ValueError('attempt to connect already-connected SSLSocket!'),
            }[admit]
        admit_exc = None
        try:
            adv = xk.accept('adversary', ('10.6.6.6', 666))
        except Exception as e:      # noqa
            admit_exc = e
            adv = env.sockets[-1]
        if closer_on == 'after':
            closer = xk.accept('closer', ('10.7.7.7', 7))
        if closer is not None:
            closer.inq.append(CLOSER_REQ)

        def factory(addr):
            return env.sock('up:' + addr[0])
        env.upstream_factory = factory
    if admit_exc is not None:
        return fail('exception escaped the executor while admitting a connection: every connection of this worker is dead', exc=repr(admit_exc))
    if admit and (adv.fd in xk.ex.works or not adv.closed):
        return fail('connection whose admission failed is still open / known to the executor', closed=adv.closed)
    # the adversary's connect outcome is decided by the connect stub per target host
    outcome = {'ok': None, 'refused': ConnectionRefusedError(errno.ECONNREFUSED, 'refused'),
               'timeout': TimeoutError(errno.ETIMEDOUT, 'timed out'), 'gaierror': socket.gaierror(-2, 'Name or service not known'),
               'oserror': OSError(errno.ENETUNREACH, 'unreachable')}[conn]
    real_connect = env.new_socket_connection

    def connect(addr, timeout=None, source_address=None):
        if addr[0] != 'canary.example' and outcome is not None:
            env.connects.append((addr, outcome))
            raise outcome
        return real_connect(addr, timeout, source_address)
    env.new_socket_connection = connect
    # one arbitrary byte per run (b0); the neighbouring bytes come from a small concrete list so that
    # multi-byte UTF-8 / delimiter contexts are present without multiplying the paths
    b1 = CFG.get('b1', 0x61)
    b2 = CFG.get('b2', 0x62)
    if admit:
        pass
    elif tpl in ('ws', 'ws_ctl'):
        adv.inq.append(scen.WS_HANDSHAKE)
    elif tpl == 'silent':
        pass        # the adversary connects and never sends a byte
    elif adv_at == 0:
        adv.inq.append(adversary_bytes(tpl, [b0, b1, b2]))
    second = CFG.get('second')
    if CFG.get('adv_stall'):
        adv.sendscript = [envkit.WOULD_BLOCK] * 40      # the adversary never takes its response: output stays pending, its work lives on
    ex = xk.ex
    for i in range(k):
        _canary_step(cst, env, i)
        if adv_at == i and i > 0:
            adv.inq.append(adversary_bytes(tpl, [b0, b1, b2]))
        aus = None
        for addr, s in env.connects:
            if addr[0] != 'canary.example' and not isinstance(s, BaseException):
                aus = s
        if i == when:
            # the adversary misbehaves now: client side and/or its upstream side
            e1 = _err(cab)
            if e1 is not None and not adv.closed:
                adv.inq.append(e1)
            if cab == 5 and not adv.closed:
                adv.sendscript = [0] * adv.si + [envkit.BROKEN_PIPE]
            if aus is not None and not aus.closed:
                e2 = _err(uab)
                if e2 is not None:
                    aus.inq.append(e2)
        if second and i == 1 and not adv.closed:
            adv.inq.append(adversary_bytes(tpl, [b0, b1, b2]))
        if aus is not None and aus.out and not aus.inq and CFG.get('answer') and not aus.closed and i < when:
            aus.inq.append(scen.response(b'adv'))
        exc = xk.step()
        if exc is not None:
            return fail('exception escaped the executor loop: every connection of this worker is dead', exc=repr(exc), step=i)
    idle = CFG.get('idle')
    if idle:
        # everything on this worker has been silent for longer than --timeout when the periodic sweep runs
        env.clock = env.clock + ex.flags.timeout + 1
    try:
        ex._cleanup_inactive()
    except Exception as e:
        return fail('_cleanup_inactive raised: the sweep runs inside the worker loop, every connection of this worker is dead', exc=repr(e))
    ccs = cst['cs']
    cus = cst.get('us')
    got = (ccs.out, cus.out if cus is not None else None, ccs.closed)
    if idle:
        if not adv.closed or adv.fd in ex.works:
            return fail('silent connection not reaped by the sweep')
    elif got != alone:
        return fail('canary connection did not proceed as it does alone', got=repr(got)[:300], alone=repr(alone)[:300])
    if not idle and not ccs.closed and ccs.fd not in ex.works:
        return fail('canary dropped from the executor')
    if closer is not None:
        if (closer.out, closer.closed) != closer_alone:
            return fail('a connection that ends in the same iteration as the failing one was not finished as it is alone',
                        got=repr((closer.out[:40], closer.closed)), alone=repr((closer_alone[0][:40], closer_alone[1])))
        if closer.fd in ex.works or closer.fd in ex.selector.map:
            return fail('a connection that asked to be torn down is still known to the executor')
    # a connection accepted afterwards is still served
    late = xk.accept('late')
    late.inq.append(b'GET http://late.example/ HTTP/1.1\r\n\r\n' if role in ('forward', 'all', 'forward_tls') else b'GET /hello HTTP/1.1\r\nHost: x\r\n\r\n')
    for j in range(2):
        exc = xk.step()
        if exc is not None:
            return fail('executor loop dead for a later connection', exc=repr(exc))
    if role in ('forward', 'all', 'forward_tls'):
        if not any(a[0] == 'late.example' for a, s in env.connects):
            return fail('later connection not served')
    elif role in ('web', 'webws'):
        if b'hello:/hello' not in late.out:
            return fail('later connection not served', out=repr(late.out[:60]))
    return ok()


def obligations(tier):
    obs = []
    T = 300

    def add(name, **cfg):
        cfg.setdefault('k', 4 if cfg.get('role') in ('web', 'webws') else 3)      # web canary: the follow-up's answer needs a 4th iteration
        obs.append({'name': name, 'fn': 'isolate', 'cfg': cfg, 'timeout': T})
        if cfg.get('cab') in (0, 1) and cfg.get('connect', 'ok') == 'ok' and not cfg.get('second') and cfg.get('uab', 0) == 0:
            c2 = dict(cfg)
            c2['b1'] = 0x80       # a continuation byte next to the arbitrary one (2-byte UTF-8 sequences become possible)
            obs.append({'name': name + '.hi', 'fn': 'isolate', 'cfg': c2, 'timeout': T})
    fwd = ['fwd_path', 'fwd_host', 'fwd_ua', 'fwd_method', 'connect_host', 'raw3', 'truncated']
    for tpl in fwd:
        for cab in (0, 1, 2, 3, 5):
            if tier == 'quick' and cab in (3,) and tpl not in ('fwd_path', 'connect_host'):
                continue
            add('fwd.%s.cab%d' % (tpl, cab), role='forward', tpl=tpl, cab=cab, uab=0, when=1)
        for conn in ('refused', 'timeout', 'gaierror', 'oserror'):
            if tpl in ('raw3', 'truncated', 'fwd_method'):
                continue
            add('fwd.%s.connect_%s' % (tpl, conn), role='forward', tpl=tpl, connect=conn, cab=0, uab=0, when=1)
    for tpl in ('fwd_path', 'connect_host'):
        for uab in (1, 2, 3, 4):
            for when in (1, 2):
                add('fwd.%s.uab%d.when%d' % (tpl, uab, when), role='forward', tpl=tpl, cab=0, uab=uab, when=when, answer=(when == 2))
    for tpl in ('web_path', 'web_hello'):
        for cab in (0, 1, 2, 5):
            add('web.%s.cab%d' % (tpl, cab), role='web', tpl=tpl, cab=cab, uab=0, when=1)
        add('web.%s.second' % tpl, role='web', tpl=tpl, cab=0, uab=0, when=2, second=True)
    # descriptor numbers are reused by the kernel: whatever a connection closes early must not stay registered under its old number
    for tpl in ('fwd_path', 'connect_host'):
        for uab in (1, 2):
            add('fdreuse.%s.uab%d' % (tpl, uab), role='forward', tpl=tpl, cab=0, uab=uab, when=2, answer=True, fd_reuse=True, adv_stall=True)
            add('fdreuse.%s.uab%d.k4' % (tpl, uab), role='forward', tpl=tpl, cab=0, uab=uab, when=2, answer=True, fd_reuse=True, adv_stall=True, k=4)
    # connections that simply go quiet (never a byte, or half a request) for longer than --timeout: the periodic sweep that reaps them runs
    # inside the worker loop and must leave the worker alive for the connections that come afterwards
    for role in ('forward', 'web'):
        add('idle.%s.silent' % role, role=role, tpl='silent', cab=0, uab=0, when=2, idle=True)
    add('idle.forward.truncated', role='forward', tpl='truncated', cab=0, uab=0, when=2, idle=True)
    # TLS-terminating listener: the handshake of a connection being admitted fails (the canary and the late connection handshake fine)
    for kind in ('sslerror', 'reset', 'eof', 'timeout', 'oserror', 'value'):
        add('admit.tls.%s' % kind, role='forward_tls', tpl='fwd_path', cab=0, uab=0, when=1, admit_fault=kind)
    # websocket route: arbitrary / truncated frame bytes after the handshake
    for tpl in ('ws', 'ws_ctl'):
        for cab in (0, 1, 2):
            add('ws.%s.cab%d' % (tpl, cab), role='webws', tpl=tpl, cab=cab, uab=0, when=2, second=True)
    for tpl in ('rev_get', 'rev_api'):
        for conn in ('ok', 'refused', 'timeout', 'gaierror', 'oserror'):
            add('rev.%s.connect_%s' % (tpl, conn), role='all', tpl=tpl, connect=conn, cab=0, uab=0, when=2)
        for cab in (1, 2, 5):
            add('rev.%s.cab%d' % (tpl, cab), role='all', tpl=tpl, cab=cab, uab=0, when=1)
        for uab in (1, 2, 4):
            add('rev.%s.uab%d' % (tpl, uab), role='all', tpl=tpl, cab=0, uab=uab, when=1)
        add('rev.%s.second' % tpl, role='all', tpl=tpl, cab=0, uab=0, when=2, second=True, answer=True)
        add('rev.%s.second.noanswer' % tpl, role='all', tpl=tpl, cab=0, uab=0, when=2, second=True)
    # a connection that finishes (teardown) in the very iteration in which the adversary's handler raises, for both orders in
    # which the event loop may look at the finished tasks
    for role, tpl in (('forward', 'fwd_host'), ('web', 'web_path'), ('all', 'rev_api'), ('forward', 'connect_host')):
        for where in ('before', 'after'):
            for order in (0, 1):
                add('sametick.%s.%s.closer_%s.order%d' % (role, tpl, where, order), role=role, tpl=tpl, cab=0, uab=0, when=2, closer=where,
                    adv_at=1, task_order=order, b1=0x80)
    if tier == 'thorough':
        for o in list(obs):
            c = dict(o['cfg'])
            c['k'] = 4
            obs.append({'name': o['name'] + '.k4', 'fn': 'isolate', 'cfg': c, 'timeout': 1200})
    return obs


META = {
    'bounds': {
        'quick': 'one executor (real Threadless._run_once), a canary connection running a fixed forward-proxy exchange and one adversary; 3 '
                 'loop iterations then _cleanup_inactive and a late third connection. Adversary: 11 request templates with one arbitrary byte next to concrete neighbours (ASCII, and 0x80 so that valid and invalid 2-byte UTF-8 arise) '
                 '(path, host, User-Agent, method, CONNECT host, raw, web path, reverse-proxy route, truncated) in forward / web / reverse roles; '
                 'client-side abort in {none, EOF, reset, EIO on recv, EPIPE on send}; upstream connect outcome in {ok, refused, timeout, '
                 'resolution failure, unreachable}; upstream abort in {EOF, reset, EIO, timeout} before/after answering; a second keep-alive '
                 'request on web/reverse connections; a TLS-terminating listener on which the adversary\'s handshake fails at admission in 6 ways; a websocket route: handshake followed by a frame with an arbitrary length/mask byte '
                 '(truncated frames) or an arbitrary opcode byte; descriptor numbers reused lowest-first while an adversary that never drains its response loses its upstream; adversaries that go quiet (no byte at all, half a request) for longer than --timeout, reaped by the periodic sweep; a call-count watchdog on the parser/frame/socket primitives turns a loop '
                 'that makes no progress into a reported stall',
        'thorough': 'the same with 4 iterations',
    },
    'outside': 'asyncio scheduling (stubbed: tasks run to completion when created), more than one adversary at a time, KeyboardInterrupt, '
               'errors injected into the canary itself',
    'stubs': ['FakeLoop + asyncio.wait stub', 'FakeSelector deriving readiness from the fake sockets', 'FakeSocket scripted errors', 'connect '
              'stub per target host', 'integer clock', 'fuel watchdog (envkit._install_fuel): 400 calls of parser/frame/socket primitives '
              'per executor iteration'],
}
