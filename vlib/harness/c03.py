"""C03 — incremental HTTP parsing does not depend on how the input is segmented.

Real code: HttpParser.parse/_process_line/_process_headers/_process_header/_process_body,
ChunkParser.parse/process, find_http_line.
"""
from proxy.http.parser import HttpParser, httpParserTypes, httpParserStates
from proxy.http.parser.chunk import ChunkParser, chunkParserStates

from vlib.hk import CFG, begin, ok, fail, skip, B

REQ = httpParserTypes.REQUEST_PARSER
RES = httpParserTypes.RESPONSE_PARSER


def _printable(*bs):
    # header-value / token bytes: visible ASCII, not ':' so the line stays one field
    for b in bs:
        if not (33 <= b <= 126) or b == 58:
            return False
    return True


def build_message(tpl, v0, v1, d0, d1, d2):
    """Returns (parser_type, M) for template `tpl`. v* = header value bytes
    (visible ASCII), d* = body bytes (any)."""
    if tpl == 'get':
        return REQ, b'GET /' + B(v0) + b' HTTP/1.1\r\nHost: ' + B(v1) + b'\r\n\r\n'
    if tpl == 'connect':
        return REQ, b'CONNECT ' + B(v0) + b':443 HTTP/1.1\r\n\r\n'
    if tpl == 'post_cl1':
        return REQ, b'POST / HTTP/1.1\r\nA: ' + B(v0) + b'\r\nContent-Length: 1\r\n\r\n' + B(d0)
    if tpl == 'post_cl3':
        return REQ, b'POST / HTTP/1.1\r\nContent-Length: 3\r\n\r\n' + B(d0, d1, d2)
    if tpl == 'post_ch1':
        return REQ, b'POST / HTTP/1.1\r\nTransfer-Encoding: chunked\r\n\r\n1\r\n' + B(d0) + b'\r\n0\r\n\r\n'
    if tpl == 'post_ch21':
        return REQ, (b'POST / HTTP/1.1\r\nTransfer-Encoding: chunked\r\n\r\n2\r\n' + B(d0, d1) +
                     b'\r\n1\r\n' + B(d2) + b'\r\n0\r\n\r\n')
    if tpl == 'post_ch0':
        return REQ, b'POST / HTTP/1.1\r\nTransfer-Encoding: chunked\r\n\r\n0\r\n\r\n'
    if tpl == 'res_ch1_ext_tr':
        return RES, (b'HTTP/1.1 200 OK\r\nTransfer-Encoding: chunked\r\n\r\n1;a=' + B(v0) + b'\r\n' + B(d0) +
                     b'\r\n0;x\r\nT: ' + B(v1) + b'\r\n\r\n')
    if tpl == 'post_chA':
        return REQ, (b'POST / HTTP/1.1\r\nTransfer-Encoding: chunked\r\n\r\nA\r\n' + B(d0, d1, d2) +
                     b'3456789\r\n0\r\n\r\n')
    if tpl == 'pp_get':
        # HAProxy PROXY protocol v1 line ahead of the request (parser created with enable_proxy_protocol)
        return REQ, b'PROXY TCP4 1.2.3.4 5.6.7.8 11 22\r\nGET /' + B(v0) + b' HTTP/1.1\r\nHost: ' + B(v1) + b'\r\n\r\n'
    if tpl == 'res_line':
        return RES, b'HTTP/1.1 200 OK\r\n\r\n'
    if tpl == 'res_cl2':
        return RES, b'HTTP/1.1 200 OK\r\nA: ' + B(v0) + b'\r\nContent-Length: 2\r\n\r\n' + B(d0, d1)
    if tpl == 'res_ch1':
        return RES, b'HTTP/1.1 200 OK\r\nTransfer-Encoding: chunked\r\n\r\n1\r\n' + B(d0) + b'\r\n0\r\n\r\n'
    if tpl == 'res_ch21':
        return RES, (b'HTTP/1.1 200 OK\r\nTransfer-Encoding: chunked\r\n\r\n2\r\n' + B(d0, d1) +
                     b'\r\n1\r\n' + B(d2) + b'\r\n0\r\n\r\n')
    raise ValueError(tpl)


NO_TRAIL = ('get', 'connect', 'res_line', 'pp_get')


def _new_parser(tpl, ptype):
    if tpl.startswith('pp_'):
        return HttpParser(ptype, enable_proxy_protocol=1)
    return HttpParser(ptype)


def observe(p):
    hs = None
    if p.headers is not None:
        hs = sorted((k, v[0], v[1]) for k, v in p.headers.items())
    pp = None if p.protocol is None else (p.protocol.version, p.protocol.family, p.protocol.source, p.protocol.destination)
    return (p.state, p.method, p.host, p.port, p.path, p.version, p.code, p.reason, hs, p.body,
            b'' if p.buffer is None else p.buffer.tobytes(), pp)


def parser_split(v0: int, v1: int, d0: int, d1: int, d2: int, t0: int, t1: int) -> bool:
    """
    pre: 0 <= d0 < 256 and 0 <= d1 < 256 and 0 <= d2 < 256
    pre: 0 <= t0 < 256 and 0 <= t1 < 256
    pre: 33 <= v0 <= 126 and 33 <= v1 <= 126 and v0 != 58 and v1 != 58
    post: _
    """
    begin()
    tpl = CFG['tpl']
    ntrail = CFG['ntrail']
    cuts = CFG['cuts']            # sorted cut positions, 0 < c < len(M+T); [] = byte-at-a-time if 'bytewise'
    if tpl in ('get', 'pp_get') and (v0 == 63 or v0 == 35):
        return skip()
    if tpl == 'connect' and not (97 <= v0 <= 122 or 48 <= v0 <= 57):
        return skip()   # host byte must be a reg-name character (URL grammar is C14's subject)
    ptype, M = build_message(tpl, v0, v1, d0, d1, d2)
    T = B(t0, t1)[:ntrail]
    data = M + T
    n = len(data)
    if CFG.get('bytewise'):
        cuts = list(range(1, n))
    pieces = []
    prev = 0
    for c in cuts:
        if c >= n:
            return skip()
        pieces.append(data[prev:c])
        prev = c
    pieces.append(data[prev:])
    whole = _new_parser(tpl, ptype)
    try:
        whole.parse(memoryview(data))
    except Exception as e:
        return fail('whole-feed raised', exc=repr(e))
    split = _new_parser(tpl, ptype)
    fed = 0
    for piece in pieces:
        try:
            split.parse(memoryview(piece))
        except Exception as e:
            return fail('piecewise feed raised', exc=repr(e), fed=fed)
        fed += len(piece)
        if fed < len(M) and split.state == httpParserStates.COMPLETE:
            return fail('complete before last byte of message', fed=fed, mlen=len(M))
    if whole.state != httpParserStates.COMPLETE:
        return fail('whole feed not complete', state=whole.state)
    if split.state != httpParserStates.COMPLETE:
        return fail('piecewise feed not complete', state=split.state, cuts=cuts)
    ow, os_ = observe(whole), observe(split)
    if ow != os_:
        return fail('observable state differs', whole=repr(ow), split=repr(os_))
    if ow[10] != T:
        return fail('remainder is not the trailing bytes', remainder=repr(ow[10]), trailing=repr(T))
    return ok()


def chunk_stream(layout, flavour, d0, d1, d2):
    """A valid chunked stream for `layout` (list of chunk sizes) and its decoded body.
    flavour: '' plain, 'ext' chunk extensions, 'tr' trailer field, 'X' upper-case hex size."""
    ds = [d0, d1, d2] + list(b'3456789abcdef')
    out = b''
    body = b''
    i = 0
    for sz in layout:
        chunk = B(*ds[i:i + sz])
        i += sz
        szl = (b'%X' % sz) if 'X' in flavour else (b'%x' % sz)
        if 'ext' in flavour:
            szl = szl + b';n=v'
        out = out + szl + b'\r\n' + chunk + b'\r\n'
        body = body + chunk
    out = out + (b'0;l\r\n' if 'ext' in flavour else b'0\r\n')
    if 'tr' in flavour:
        out = out + b'T: v\r\n'
    out = out + b'\r\n'
    return out, body


def chunk_split(d0: int, d1: int, d2: int, t0: int, t1: int) -> bool:
    """
    pre: 0 <= d0 < 256 and 0 <= d1 < 256 and 0 <= d2 < 256
    pre: 0 <= t0 < 256 and 0 <= t1 < 256
    post: _
    """
    begin()
    layout = CFG['layout']
    ntrail = CFG['ntrail']
    cuts = CFG['cuts']
    M, body = chunk_stream(layout, CFG.get('flavour', ''), d0, d1, d2)
    T = B(t0, t1)[:ntrail]
    data = M + T
    n = len(data)
    if CFG.get('bytewise'):
        cuts = list(range(1, n))
    pieces = []
    prev = 0
    for c in cuts:
        if c >= n:
            return skip()
        pieces.append(data[prev:c])
        prev = c
    pieces.append(data[prev:])
    p = ChunkParser()
    fed = 0
    rem = b''
    for piece in pieces:
        try:
            if p.state == chunkParserStates.COMPLETE:
                rem = rem + piece
            else:
                rem = p.parse(memoryview(piece)).tobytes()
        except Exception as e:
            return fail('chunk parser raised', exc=repr(e), fed=fed)
        fed += len(piece)
        if fed < len(M) and p.state == chunkParserStates.COMPLETE:
            return fail('chunk stream complete before its last byte', fed=fed, mlen=len(M))
        if p.state != chunkParserStates.COMPLETE and rem != b'':
            return fail('bytes handed back before completion', rem=repr(rem), fed=fed)
    if p.state != chunkParserStates.COMPLETE:
        return fail('chunk stream not complete', cuts=cuts)
    if p.body != body:
        return fail('decoded body differs', got=repr(p.body), want=repr(body))
    if rem != T:
        return fail('remainder is not the trailing bytes', rem=repr(rem), trailing=repr(T))
    return ok()


def obligations(tier):
    obs = []
    lens = {}
    for tpl in ('get', 'connect', 'pp_get', 'post_cl1', 'post_cl3', 'post_ch1', 'post_ch21', 'post_ch0', 'post_chA',
                'res_line', 'res_cl2', 'res_ch1', 'res_ch21', 'res_ch1_ext_tr'):
        _, M = build_message(tpl, 65, 66, 1, 2, 3)
        lens[tpl] = len(M)
    for tpl, mlen in lens.items():
        ntrail = 0 if tpl in NO_TRAIL else 2
        n = mlen + ntrail
        # every single cut, grouped per template in one obligation each (concrete cut per obligation)
        for c in range(1, n):
            obs.append({'name': 'parser.%s.cut%d' % (tpl, c), 'fn': 'parser_split',
                        'cfg': {'tpl': tpl, 'ntrail': ntrail, 'cuts': [c]}, 'timeout': 120})
        obs.append({'name': 'parser.%s.bytewise' % tpl, 'fn': 'parser_split',
                    'cfg': {'tpl': tpl, 'ntrail': ntrail, 'cuts': [], 'bytewise': True}, 'timeout': 240})
        if tier == 'thorough':
            # every pair of cuts in the body/trailing region plus one header cut
            start = max(1, mlen - 14)
            for c1 in range(start, n):
                for c2 in range(c1 + 1, n):
                    obs.append({'name': 'parser.%s.cut%d_%d' % (tpl, c1, c2), 'fn': 'parser_split',
                                'cfg': {'tpl': tpl, 'ntrail': ntrail, 'cuts': [c1, c2]}, 'timeout': 240})
    for layout, flavour in (([], ''), ([1], ''), ([2, 1], ''), ([3], ''), ([1], 'ext'), ([1], 'tr'), ([2, 1], 'exttr'),
                            ([11], 'X'), ([10], '')):
        M, _ = chunk_stream(layout, flavour, 1, 2, 3)
        n = len(M) + 2
        nm = ('x'.join(str(x) for x in layout) or '0') + flavour
        for c in range(1, n):
            obs.append({'name': 'chunk.%s.cut%d' % (nm, c), 'fn': 'chunk_split',
                        'cfg': {'layout': layout, 'flavour': flavour, 'ntrail': 2, 'cuts': [c]}, 'timeout': 120})
        obs.append({'name': 'chunk.%s.bytewise' % nm, 'fn': 'chunk_split',
                    'cfg': {'layout': layout, 'flavour': flavour, 'ntrail': 2, 'cuts': [], 'bytewise': True}, 'timeout': 240})
        if tier == 'thorough':
            for c1 in range(1, n):
                for c2 in range(c1 + 1, n):
                    obs.append({'name': 'chunk.%s.cut%d_%d' % (nm, c1, c2), 'fn': 'chunk_split',
                                'cfg': {'layout': layout, 'flavour': flavour, 'ntrail': 2, 'cuts': [c1, c2]}, 'timeout': 240})
    return obs


META = {
    'bounds': {
        'quick': 'templates: 14 request/response messages (GET, CONNECT, GET behind a PROXY-protocol v1 line, POST CL 1/3, POST chunked [1],[2,1],[],[10], '
                 'status-line-only response, response CL 2, chunked [1],[2,1], chunked with extensions+trailer) with 2 symbolic '
                 'header-value bytes, 3 symbolic body bytes, 0..2 symbolic trailing bytes; every single cut position and the '
                 'one-byte-per-piece feed; ChunkParser alone on 9 chunk layouts (sizes 0..3, 10, 11; extensions; trailer; hex case)',
        'thorough': 'as quick plus every pair of cut positions in the last 14+ bytes of each message and every pair of cuts '
                    'of each chunk stream',
    },
    'outside': 'messages longer than the templates, more than 3 symbolic body bytes, three or more simultaneous cuts other than '
               'the bytewise feed, close-delimited framing (excluded by the property), header folding / duplicate headers',
    'stubs': ['none: the parsers are pure; inputs are solver variables',
              'CrossHair models for bytes.split and int(bytes,16) (vlib/plugin.py), validated against CPython at start of each run'],
}
