"""C15 — HTTP message and chunked codecs round-trip and agree with a reference.

Real code: build_http_request/response/pkt/header, HttpParser.request/response/parse/build/
build_response/update_body/_get_body_or_chunks, ChunkParser.to_chunks/parse.
"""
import gzip

from proxy.common.utils import build_http_request, build_http_response
from proxy.http.parser import HttpParser, httpParserTypes, httpParserStates
from proxy.http.parser.chunk import ChunkParser, chunkParserStates

from proxy.common.constants import PROXY_AGENT_HEADER_VALUE
from vlib import refhttp
from vlib.hk import CFG, begin, ok, fail, skip, B

METHODS = [b'GET', b'POST', b'PUT', b'DELETE', b'OPTIONS', b'PATCH', b'HEAD']


def _vis(*bs):
    for b in bs:
        if not (33 <= b <= 126):
            return False
    return True


def req_roundtrip(p0: int, n0: int, v0: int, v1: int, w0: int, d0: int, d1: int, d2: int) -> bool:
    """
    pre: 33 <= p0 <= 126 and 33 <= v0 <= 126 and 33 <= v1 <= 126 and 33 <= w0 <= 126
    pre: 97 <= n0 <= 122
    pre: 0 <= d0 < 256 and 0 <= d1 < 256 and 0 <= d2 < 256
    post: _
    """
    begin()
    method = METHODS[CFG['method']]
    nh = CFG['nheaders']
    blen = CFG['blen']
    chunked = CFG['chunked']
    if p0 == 47:
        return skip()       # '//' starts the scheme-less absolute form (URL grammar is C14's subject)
    target = b'/' + B(p0)
    headers = {}
    if nh >= 1:
        headers[b'X-' + B(n0)] = B(v0, v1)
    if nh >= 2:
        headers[b'Accept'] = B(w0)
    body = B(d0, d1, d2)[:blen]
    ua = CFG.get('ua')          # None: builder told not to add one | 'default': builder adds its own | 'ua_first' / 'te_first': caller's own
    if ua == 'ua_first':
        headers[b'User-Agent'] = B(w0)
    given = dict(headers)
    if chunked:
        headers[b'Transfer-Encoding'] = b'chunked'
        wire_body = ChunkParser.to_chunks(body, 2)
    else:
        wire_body = body
    if ua == 'te_first':
        headers[b'User-Agent'] = B(w0)
        given[b'User-Agent'] = B(w0)
    if ua == 'default':
        given[b'User-Agent'] = PROXY_AGENT_HEADER_VALUE
    raw = build_http_request(method, target, headers=dict(headers), body=wire_body if (blen or chunked) else None, no_ua=(ua is None))
    # independent reader
    try:
        m = refhttp.read_message(raw, False)
    except refhttp.Malformed as e:
        return fail('built request rejected by the reference reader', why=str(e), raw=repr(raw))
    if m['remainder'] != b'':
        return fail('built request has trailing bytes for the reference reader', rem=repr(m['remainder']))
    if m['start'] != (method, target, b'HTTP/1.1') or m['body'] != body:
        return fail('reference reader sees different start line or body', start=repr(m['start']), body=repr(m['body']))
    # the library's own parser
    try:
        p = HttpParser.request(raw)
    except Exception as e:
        return fail('parse(build(x)) raised', exc=repr(e))
    if p.state != httpParserStates.COMPLETE:
        return fail('parse(build(x)) not complete', state=p.state)
    if p.method != method or p.path != target or p.version != b'HTTP/1.1':
        return fail('start line not preserved', got=repr((p.method, p.path, p.version)))
    exp = dict(given)
    if chunked:
        exp[b'Transfer-Encoding'] = b'chunked'
    elif blen:
        exp[b'Content-Length'] = b'%d' % blen
    got = {v[0]: v[1] for v in (p.headers or {}).values()}
    if got != exp:
        return fail('headers not preserved', got=repr(got), exp=repr(exp))
    if (p.body or b'') != body:
        return fail('body not preserved', got=repr(p.body), exp=repr(body))
    if p.buffer is not None:
        return fail('unconsumed remainder after a built message')
    # re-serialise the parsed message and read it again
    try:
        raw2 = p.build()
        m2 = refhttp.read_message(raw2, False)
    except refhttp.Malformed as e:
        return fail('rebuilt request rejected by the reference reader', why=str(e), raw=repr(raw2))
    except Exception as e:
        return fail('build(parse(y)) raised', exc=repr(e))
    if m2['remainder'] != b'' or m2['start'] != m['start'] or m2['body'] != body:
        return fail('rebuilt request differs', raw2=repr(raw2))
    if sorted((k, v) for k, _, v in m2['headers']) != sorted((k, v) for k, _, v in m['headers']):
        return fail('rebuilt request headers differ', h1=repr(m['headers']), h2=repr(m2['headers']))
    return ok()


def res_roundtrip(r0: int, r1: int, n0: int, v0: int, v1: int, d0: int, d1: int, d2: int) -> bool:
    """
    pre: 33 <= r0 <= 126 and 33 <= r1 <= 126 and 33 <= v0 <= 126 and 33 <= v1 <= 126
    pre: 97 <= n0 <= 122
    pre: 0 <= d0 < 256 and 0 <= d1 < 256 and 0 <= d2 < 256
    post: _
    """
    begin()
    nh = CFG['nheaders']
    blen = CFG['blen']
    chunked = CFG['chunked']
    rlen = CFG['rlen']
    code = CFG['code']      # concrete (case split): str() of a symbolic int realises
    if (code < 200 or code == 204 or code == 304) and (blen or chunked):
        return skip()      # these status codes never carry a body
    reason = B(r0, r1)[:rlen]
    headers = {}
    if nh >= 1:
        headers[b'X-' + B(n0)] = B(v0, v1)
    given = dict(headers)
    body = B(d0, d1, d2)[:blen]
    if chunked:
        headers[b'Transfer-Encoding'] = b'chunked'
        wire_body = ChunkParser.to_chunks(body, 2)
    else:
        wire_body = body
    raw = build_http_response(code, reason=reason if rlen else None, headers=dict(headers),
                              body=wire_body if (blen or chunked) else None, conn_close=CFG.get('close', False))
    why = refhttp.response_wellformed(raw)
    if why is not None:
        return fail('built response is not well-formed', why=why, raw=repr(raw))
    m = refhttp.read_message(raw, True)
    if m['body'] != body:
        return fail('reference reader sees a different body', got=repr(m['body']))
    try:
        p = HttpParser.response(raw)
    except Exception as e:
        return fail('parse(build(x)) raised', exc=repr(e))
    if p.state != httpParserStates.COMPLETE:
        return fail('parse(build(x)) not complete', state=p.state)
    if p.code != (b'%d' % code) or p.version != b'HTTP/1.1' or (p.reason or b'') != reason:
        return fail('status line not preserved', got=repr((p.version, p.code, p.reason)))
    exp = dict(given)
    if chunked:
        exp[b'Transfer-Encoding'] = b'chunked'
    else:
        exp[b'Content-Length'] = b'%d' % blen
    if CFG.get('close'):
        exp[b'Connection'] = b'close'
    got = {v[0]: v[1] for v in (p.headers or {}).values()}
    if got != exp:
        return fail('headers not preserved', got=repr(got), exp=repr(exp))
    if (p.body or b'') != body:
        return fail('body not preserved', got=repr(p.body), exp=repr(body))
    try:
        raw2 = p.build_response()
    except Exception as e:
        return fail('build_response(parse(y)) raised', exc=repr(e))
    why = refhttp.response_wellformed(raw2)
    if why is not None:
        return fail('rebuilt response is not well-formed', why=why, raw2=repr(raw2))
    m2 = refhttp.read_message(raw2, True)
    if m2['start'] != m['start'] or m2['body'] != body:
        return fail('rebuilt response differs', raw2=repr(raw2))
    if sorted((k, v) for k, _, v in m2['headers']) != sorted((k, v) for k, _, v in m['headers']):
        return fail('rebuilt response headers differ', h1=repr(m['headers']), h2=repr(m2['headers']))
    return ok()


def chunk_inverse(d0: int, d1: int, d2: int, d3: int) -> bool:
    """
    pre: 0 <= d0 < 256 and 0 <= d1 < 256 and 0 <= d2 < 256 and 0 <= d3 < 256
    post: _
    """
    begin()
    body = B(d0, d1, d2, d3)[:CFG['blen']]
    enc = ChunkParser.to_chunks(body, CFG['csize'])
    try:
        rb, tr, rem = refhttp.decode_chunked(enc)
    except refhttp.Malformed as e:
        return fail('encoder output rejected by the reference decoder', why=str(e), enc=repr(enc))
    if rb != body or rem != b'' or tr != []:
        return fail('reference decoder disagrees with the encoder', rb=repr(rb), rem=repr(rem))
    p = ChunkParser()
    try:
        rem2 = p.parse(memoryview(enc)).tobytes()
    except Exception as e:
        return fail('decoder raised on encoder output', exc=repr(e))
    if p.state != chunkParserStates.COMPLETE or p.body != body or rem2 != b'':
        return fail('decode(encode(b)) != b', state=p.state, body=repr(p.body), rem=repr(rem2))
    return ok()


def update_body(d0: int, d1: int, d2: int) -> bool:
    """
    pre: 0 <= d0 < 256 and 0 <= d1 < 256 and 0 <= d2 < 256
    post: _
    """
    begin()
    mode = CFG['mode']
    new = B(d0, d1, d2)[:CFG['blen']]
    if mode == 'cl':
        raw = b'POST / HTTP/1.1\r\nHost: h\r\nContent-Length: 2\r\nContent-Type: a/b\r\n\r\nxy'
    elif mode == 'chunked':
        raw = b'POST / HTTP/1.1\r\nHost: h\r\nTransfer-Encoding: chunked\r\n\r\n2\r\nxy\r\n0\r\n\r\n'
    elif mode == 'br':
        raw = b'POST / HTTP/1.1\r\nHost: h\r\nContent-Encoding: br\r\nContent-Length: 2\r\n\r\nxy'
    else:
        raise ValueError(mode)
    p = HttpParser.request(raw)
    if CFG.get('build_first'):
        # build() is a pure function of the message: having serialised it once (a plugin logging / caching the request) does not
        # change what a later build() returns after the body was replaced
        p.build()
    p.update_body(new, b'text/plain')
    try:
        out = p.build()
        m = refhttp.read_message(out, False)
    except refhttp.Malformed as e:
        return fail('request with replaced body rejected by the reference reader', why=str(e), out=repr(out))
    if m['remainder'] != b'' or m['body'] != new:
        return fail('replaced body does not decode to the new content', body=repr(m['body']), rem=repr(m['remainder']))
    hs = {k: v for k, _, v in m['headers']}
    if hs.get(b'content-type') != b'text/plain':
        return fail('content-type not updated')
    if mode == 'br' and b'content-encoding' in hs:
        return fail('unsupported content-encoding kept although body is now identity')
    return ok()


def selftest():
    n = refhttp.selftest()
    # gzip branches of update_body / okResponse on concrete contents (C library: not a solver claim)
    for body in (b'', b'hello', b'x' * 40):
        p = HttpParser.request(b'POST / HTTP/1.1\r\nHost: h\r\nContent-Encoding: gzip\r\nContent-Length: 2\r\n\r\nxy')
        p.update_body(body, b'text/plain')
        m = refhttp.read_message(p.build(), False)
        assert gzip.decompress(m['body']) == body and m['remainder'] == b''
        n += 1
    return n


def obligations(tier):
    obs = []
    T = 240
    for mi in range(len(METHODS) if tier == 'thorough' else 3):
        for nh in (0, 1, 2):
            for blen, chunked in ((0, False), (1, False), (3, False), (0, True), (1, True), (3, True)):
                if tier == 'quick' and mi > 0 and (nh != 1):
                    continue
                obs.append({'name': 'req.%s.h%d.b%d%s' % (METHODS[mi].decode(), nh, blen, '.chunked' if chunked else ''),
                            'fn': 'req_roundtrip', 'cfg': {'method': mi, 'nheaders': nh, 'blen': blen, 'chunked': chunked}, 'timeout': T})
    for ua in ('default', 'ua_first', 'te_first'):
        for blen, chunked in ((0, False), (2, False), (0, True), (2, True)):
            obs.append({'name': 'req.POST.h1.b%d%s.ua_%s' % (blen, '.chunked' if chunked else '', ua), 'fn': 'req_roundtrip',
                        'cfg': {'method': 1, 'nheaders': 1, 'blen': blen, 'chunked': chunked, 'ua': ua}, 'timeout': T})
    for nh in (0, 1):
        for rlen in (0, 2):
            for blen, chunked in ((0, False), (1, False), (3, False), (0, True), (2, True), (3, True)):
                for close in (False, True):
                    if tier == 'quick' and close and (nh or rlen):
                        continue
                    for code in ((200, 404) if tier == 'quick' else (100, 101, 200, 204, 301, 304, 404, 500, 599)):
                        if tier == 'quick' and code != 200 and (nh == 0 or close):
                            continue
                        if (code < 200 or code in (204, 304)) and (blen or chunked):
                            continue        # these status codes never carry a body
                        obs.append({'name': 'res.%d.h%d.r%d.b%d%s%s' % (code, nh, rlen, blen, '.chunked' if chunked else '', '.close' if close else ''),
                                    'fn': 'res_roundtrip', 'cfg': {'code': code, 'nheaders': nh, 'rlen': rlen, 'blen': blen, 'chunked': chunked,
                                                                   'close': close}, 'timeout': T})
    for blen in range(0, 5):
        for cs in range(1, 6):
            obs.append({'name': 'chunk_inverse.b%d.cs%d' % (blen, cs), 'fn': 'chunk_inverse', 'cfg': {'blen': blen, 'csize': cs}, 'timeout': 120})
    for mode in ('cl', 'chunked', 'br'):
        for blen in (0, 1, 3):
            obs.append({'name': 'update_body.%s.b%d' % (mode, blen), 'fn': 'update_body', 'cfg': {'mode': mode, 'blen': blen}, 'timeout': 120})
            obs.append({'name': 'update_body.%s.b%d.after_build' % (mode, blen), 'fn': 'update_body',
                        'cfg': {'mode': mode, 'blen': blen, 'build_first': True}, 'timeout': 120})
    return obs


META = {
    'bounds': {
        'quick': 'requests: 3 methods x 0..2 headers (symbolic name letter, 1-2 symbolic visible value bytes) x body 0/1/3 symbolic bytes x '
                 '{Content-Length, chunked}; responses: status code from a concrete list (str() of a symbolic int is not kept symbolic by the engine), reason 0/2 symbolic bytes, 0..1 headers, body 0..3 symbolic '
                 'bytes x {CL, chunked} x conn_close; to_chunks/parse inverse for body 0..4 symbolic bytes x chunk size 1..5; update_body for '
                 'identity / chunked / unsupported encoding with 0..3 symbolic bytes',
        'thorough': 'all 7 methods x all header counts',
    },
    'outside': 'bodies > 4 bytes, header values with internal whitespace, gzip on symbolic data (zlib is C code: gzip branches are exercised '
               'on concrete bodies in the oracle self-test only and are not a solver claim)',
    'stubs': ['none (pure functions)', 'reference reader vlib/refhttp.py is the independent oracle; it is cross-checked against h11 on every run'],
}
