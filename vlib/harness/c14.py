"""C14 — the proxy connects to exactly the host and port the request-target names.

Real code: Url.from_bytes/_parse, HttpParser._process_line/_set_line_attributes,
HttpProxyPlugin.connect_upstream, TcpServerConnection.connect, new_socket_connection.
"""
import socket as _socket

from proxy.common.flag import FlagParser
from proxy.common import utils as _utils
from proxy.core.connection import server as _srv
from proxy.http.url import Url
from proxy.http.exception import HttpProtocolException
from proxy.http.proxy import HttpProxyBasePlugin
from proxy.http.responses import BAD_REQUEST_RESPONSE_PKT, BAD_GATEWAY_RESPONSE_PKT

from vlib import envkit
from vlib.hk import CFG, begin, ok, fail, skip, B, run, cat, concrete

envkit.install()
# C14 keeps the REAL new_socket_connection and stubs one level lower: the socket module it uses
_srv.new_socket_connection = _utils.new_socket_connection
FLAGS = FlagParser.initialize(['--threadless'])
FLAGS_POOL = FlagParser.initialize(['--threadless', '--enable-conn-pool'])

CALLS = []


class _Sock(envkit.FakeSocket):
    def __init__(self, family):
        super().__init__('os-socket', envkit.ENV[0])
        self.family = family

    def connect(self, addr):
        if not (0 <= addr[1] <= 65535):
            raise OverflowError('connect(): port must be 0-65535.')     # what the OS-level call does
        CALLS.append(('connect', self.family, addr))


class _SocketShim:
    AF_INET = _socket.AF_INET
    AF_INET6 = _socket.AF_INET6
    SOCK_STREAM = _socket.SOCK_STREAM
    SHUT_WR = _socket.SHUT_WR
    error = _socket.error
    gaierror = _socket.gaierror

    @staticmethod
    def socket(family=None, type=None, proto=0, fileno=None):
        return _Sock(family)

    @staticmethod
    def create_connection(addr, timeout=None, source_address=None):
        if not (0 <= addr[1] <= 65535):
            raise OverflowError('getaddrinfo(): port must be 0-65535.')     # what the OS-level call does
        CALLS.append(('create_connection', None, addr))
        return _Sock(None)


_utils.socket = _SocketShim

# host kinds: (template with {} for symbolic chars, number of symbolic chars, kind)
HOSTS = {
    'name1': ('{}', 1, 'name'), 'name3': ('{}{}{}', 3, 'name'), 'dotted': ('{}.{}', 2, 'name'), 'dash': ('a-{}.example', 1, 'name'),
    'v4': ('10.{}.0.{}', 2, 'v4'), 'v4b': ('1{}2.168.1.{}', 2, 'v4'),
    'v6a': ('[::{}]', 1, 'v6'), 'v6b': ('[{}::1]', 1, 'v6'), 'v6c': ('[2001:db8::{}:1]', 1, 'v6'), 'v6d': ('[::ffff:1.2.3.4]', 0, 'v6'),
    'v6e': ('[fe80:{}:0:0:0:0:0:1]', 1, 'v6'), 'v6f': ('[::]', 0, 'v6'),
    # a registered name with one two-byte UTF-8 character (U+00C0..U+00FF, e.g. sharp s): the name the target carries is the name
    # handed to the resolver, not a mapped / transliterated one
    'u8': ('fa{}.example', 1, 'name'),
}


def _host(kind, h0, h1, h2):
    tpl, n, k = HOSTS[kind]
    if kind == 'u8':
        return b'fa\xc3' + B(0x80 + (h0 - 33)) + b'.example', k
    parts = tpl.split('{}')
    hs = [h0, h1, h2]
    out = parts[0].encode()
    for i in range(n):
        out = out + B(hs[i]) + parts[i + 1].encode()
    return out, k


def _char_ok(k, kind, c):
    if kind == 'u8':
        return 33 <= c <= 96
    if k == 'name':
        return 97 <= c <= 122 or 48 <= c <= 57
    if k == 'v4' or kind == 'v6d':
        return 48 <= c <= 57
    return 48 <= c <= 57 or 97 <= c <= 102


def target(h0: int, h1: int, h2: int, port: int, p0: int, p1: int) -> bool:
    """
    pre: 33 <= h0 <= 126 and 33 <= h1 <= 126 and 33 <= h2 <= 126
    pre: 1 <= port <= 65535
    pre: 33 <= p0 <= 126 and 33 <= p1 <= 126
    post: _
    """
    begin()
    form = CFG['form']          # abs | slashes | connect
    hk = CFG['host']
    has_port = CFG['port']
    userinfo = CFG.get('userinfo', False)
    plen = CFG['plen']
    tpl, n, k = HOSTS[hk]
    for c in [h0, h1, h2][:n]:
        if not _char_ok(k, hk, c):
            return skip()
    if hk == 'v4b' and not (h0 == 48 or h0 == 57):
        pass
    host, k = _host(hk, h0, h1, h2)
    # path / query characters: anything visible except the ones that end the target
    for c in [p0, p1][:plen]:
        if c == 35:
            return skip()    # '#' fragments are never sent in request-targets
    path = (b'/' + B(p0, p1)[:plen]) if plen >= 0 else b''
    if CFG.get('portval') is not None:
        if port != CFG['portval']:
            return skip()
        port = CFG['portval']
    spell = CFG.get('portspell')
    if spell is not None:
        # the port as the client spells it (leading zeros are legal digits of a port): names this number
        port = int(spell)
    ui = {False: None, True: (b'u', b'p'), 'u': (b'u', None), 'u:p:q': (b'u', b'p:q'), ':p': (b'', b'p')}[userinfo]
    ui_b = b'' if ui is None else (ui[0] + (b':' + ui[1] if ui[1] is not None else b'') + b'@')
    authority = ui_b + host + ((b':' + (spell.encode() if spell is not None else str(port).encode())) if has_port else b'')
    if form == 'abs':
        tgt = b'http://' + authority + path
        line = b'GET ' + tgt + b' HTTP/1.1\r\nHost: x\r\n\r\n'
        exp_port = port if has_port else 80
        exp_path = path if plen >= 0 else None
    elif form == 'slashes':
        tgt = b'//' + authority + path
        line = b'GET ' + tgt + b' HTTP/1.1\r\nHost: x\r\n\r\n'
        exp_port = port if has_port else 80
        exp_path = path if plen >= 0 else None
    else:
        tgt = authority
        line = b'CONNECT ' + tgt + b' HTTP/1.1\r\n\r\n'
        exp_port = port if has_port else 443
        exp_path = None
    # (1) the URL splitter on its own
    try:
        u = Url.from_bytes(tgt)
    except Exception as e:
        return fail('Url.from_bytes raised on a valid target', exc=repr(e), target=repr(tgt))
    if u.hostname != host:
        return fail('host differs', got=repr(u.hostname), want=repr(host), target=repr(tgt))
    if u.port != (port if has_port else None):
        return fail('port differs', got=repr(u.port), target=repr(tgt))
    if form != 'connect' and u.remainder != exp_path:
        return fail('path differs', got=repr(u.remainder), want=repr(exp_path), target=repr(tgt))
    if ui is not None and (u.username != ui[0] or u.password != ui[1]):
        return fail('userinfo differs', got=repr((u.username, u.password)), want=repr(ui))
    # (2) through the real handler down to the OS-level connect
    del CALLS[:]
    with concrete():
        env = envkit.new_env()
        if CFG.get('pool'):
            from proxy.core.connection import UpstreamConnectionPool
            h, cs = envkit.make_handler(FLAGS_POOL, env)
            h.upstream_conn_pool = UpstreamConnectionPool()      # what Threadless hands to every work with --enable-conn-pool
        else:
            h, cs = envkit.make_handler(FLAGS, env)
    cs.inq.append(line)
    try:
        td = run(h.handle_events([cs.fd], []))
    except Exception as e:
        return fail('exception left handle_events', exc=repr(e))
    if td or h.must_flush_before_shutdown:
        return fail('valid target rejected', queued=repr(cat(h.work.buffer)[:40]), target=repr(tgt))
    if h.request.host != host or h.request.port != exp_port:
        return fail('request host/port differ', got=repr((h.request.host, h.request.port)), want=repr((host, exp_port)))
    if len(CALLS) != 1:
        return fail('not exactly one outbound connection attempt', calls=repr(CALLS))
    how, fam, addr = CALLS[0]
    bare = host[1:-1] if k == 'v6' else host
    want_host = bare.decode()
    if k == 'name':
        if how != 'create_connection' or addr != (want_host, exp_port):
            return fail('name target: resolver/connect called with a different address', call=repr(CALLS[0]), want=repr((want_host, exp_port)))
    elif k == 'v4':
        if how != 'connect' or fam != _socket.AF_INET or addr != (want_host, exp_port):
            return fail('IPv4 literal: wrong family or address', call=repr(CALLS[0]), want=repr((want_host, exp_port)))
    else:
        if how != 'connect' or fam != _socket.AF_INET6 or (addr[0], addr[1]) != (want_host, exp_port):
            return fail('IPv6 literal: wrong family or address (brackets must be stripped)', call=repr(CALLS[0]),
                        want=repr((want_host, exp_port)))
    if form != 'connect':
        sent = envkit.pending(h.plugin.upstream)
        want_line = b'GET ' + (exp_path or b'/') + b' HTTP/1.1\r\n'
        if not sent.startswith(want_line):
            return fail('request line sent upstream is not the origin-form of the target', sent=repr(sent[:40]), want=repr(want_line))
    return ok()


class _Resolver(HttpProxyBasePlugin):
    """A resolve_dns plugin answering with a fixed address for every name (what the shipped CustomDnsResolverPlugin does with a real
    lookup); the port to connect to is still the one the request-target names."""

    def resolve_dns(self, host, port):
        return '10.9.8.7', None


FLAGS_DNS = FlagParser.initialize(['--threadless'], plugins=[_Resolver])


def resolved(port: int, port2: int, f1: int, f2: int) -> bool:
    """
    pre: 1 <= port <= 65535 and 1 <= port2 <= 65535
    pre: 0 <= f1 <= 2 and 0 <= f2 <= 2
    post: _
    """
    begin()
    # several connections of one worker name the same host with (possibly) different ports, explicit or defaulted, http or CONNECT:
    # each is connected to the plugin-resolved address and to ITS OWN port
    ports = [port, port2]
    forms = [f1, f2]
    with concrete():
        env = envkit.new_env()
    for i in range(2):
        p, f = ports[i], forms[i]
        if f == 0:
            line = b'GET http://h.example:' + str(p).encode() + b'/ HTTP/1.1\r\nHost: h.example\r\n\r\n'
            want = p
        elif f == 1:
            line = b'CONNECT h.example:' + str(p).encode() + b' HTTP/1.1\r\n\r\n'
            want = p
        else:
            line = b'GET http://h.example/ HTTP/1.1\r\nHost: h.example\r\n\r\n'
            want = 80
        del CALLS[:]
        with concrete():
            h, cs = envkit.make_handler(FLAGS_DNS, env, name='client%d' % i)
        cs.inq.append(line)
        try:
            td = run(h.handle_events([cs.fd], []))
        except Exception as e:
            return fail('exception left handle_events', exc=repr(e), connection=i)
        if td or h.must_flush_before_shutdown:
            return fail('valid target rejected', connection=i, out=repr(cat(h.work.buffer)[:40]))
        if len(CALLS) != 1:
            return fail('not exactly one outbound connection', calls=repr(CALLS), connection=i)
        how, fam, addr = CALLS[0]
        if (addr[0], addr[1]) != ('10.9.8.7', want):
            return fail('connection %d went to a different address/port than its target names' % i, call=repr(CALLS[0]), want=repr(('10.9.8.7', want)))
    return ok()


DAMAGED = {
    'nobracket': b'http://[::1/x', 'badport': b'http://h.example:8{}/', 'badport2': b'h.example:{}{}', 'emptyhost': b'http://:80/',
    'emptyhost2': b':443', 'scheme': b'ft{}://h.example/', 'emptyport': b'http://h.example:/', 'negport': b'http://h.example:-{}/',
    'port0': b'http://h.example:0/{}', 'port00': b'http://h.example:00/{}', 'port0c': b'h.example:0', 'port000c': b'h.example:000',
    'bigport': b'http://h.example:6553{}/', 'spacehost': b'http://h{}e/', 'badutf8': b'http://ex{}ample.com/', 'badutf8c': b'ex{}ample.com:443',
}


def damaged(c0: int, c1: int) -> bool:
    """
    pre: 33 <= c0 <= 255 and 33 <= c1 <= 126
    post: _
    """
    begin()
    kind = CFG['kind']
    tpl = DAMAGED[kind]
    if kind not in ('badutf8', 'badutf8c') and c0 > 126:
        return skip()
    if kind in ('badport', 'badport2') and (48 <= c0 <= 57 or c0 == 95 or c0 == 47 or c0 == 58 or c0 == 64 or c0 == 63):
        return skip()      # must be a non-digit that also does not end the authority
    if kind == 'badport2' and (48 <= c1 <= 57 or c1 in (95, 47, 58, 64, 63)):
        return skip()
    if kind == 'scheme' and c0 == 112:
        return skip()
    if kind == 'scheme' and not (97 <= c0 <= 122):
        return skip()
    if kind == 'negport' and not (49 <= c0 <= 57):
        return skip()
    if kind in ('port0', 'port00') and (c0 > 126 or c0 == 35):
        return skip()      # path character after a target naming port 0: no such TCP port can be connected to
    if kind == 'bigport' and not (54 <= c0 <= 57):
        return skip()      # 65536..65539
    if kind in ('badutf8', 'badutf8c') and c0 < 128:
        return skip()      # a lone byte >= 0x80 is never valid UTF-8: the host cannot be turned into a name to connect to
    parts = tpl.split(b'{}')
    tgt = parts[0]
    cs_ = [c0, c1]
    for i in range(len(parts) - 1):
        tgt = tgt + B(cs_[i]) + parts[i + 1]
    if kind == 'spacehost':
        if c0 != 64 and c0 != 58 and c0 != 47 and c0 != 63:
            return skip()
        # '@', ':', '/', '?' inside what was meant to be a host changes the structure: covered by valid templates
        return skip()
    connectish = not tgt.startswith(b'http') and not tgt.startswith(b'ft')
    line = (b'CONNECT ' if connectish else b'GET ') + tgt + b' HTTP/1.1\r\nHost: x\r\n\r\n'
    del CALLS[:]
    with concrete():
        env = envkit.new_env()
        h, cs = envkit.make_handler(FLAGS, env)
    cs.inq.append(line)
    try:
        td = run(h.handle_events([cs.fd], []))
    except Exception as e:
        if kind in ('badutf8', 'badutf8c') and len(CALLS) == 0:
            return ok()     # an exception leaving the handler is turned into a close by the executor (C05); nothing was connected
        return fail('exception left handle_events', exc=repr(e), target=repr(tgt))
    out = cat(h.work.buffer)
    if len(CALLS) != 0:
        return fail('outbound connection attempted for an uninterpretable target', calls=repr(CALLS), target=repr(tgt))
    if not (td or h.must_flush_before_shutdown):
        return fail('uninterpretable target neither rejected nor closed', target=repr(tgt), out=repr(out[:30]))
    if out != b'' and out != BAD_REQUEST_RESPONSE_PKT.tobytes() and out != BAD_GATEWAY_RESPONSE_PKT.tobytes():
        return fail('rejection is not one of the protocol-error responses', out=repr(out[:60]))
    return ok()


def selftest():
    # oracle validation: the way the harness assembles targets agrees with urllib on concrete samples
    from urllib.parse import urlsplit
    n = 0
    for hk in HOSTS:
        host, k = _host(hk, ord('1'), ord('2'), ord('3'))
        for port in (None, 8080):
            t = b'http://u:p@' + host + ((b':%d' % port) if port else b'') + b'/a?b=c'
            sp = urlsplit(t.decode())
            bare = host[1:-1] if k == 'v6' else host
            assert sp.hostname == bare.decode().lower(), (t, sp.hostname)
            assert sp.port == port and sp.path == '/a' and sp.query == 'b=c' and sp.username == 'u' and sp.password == 'p'
            n += 1
    return n


def obligations(tier):
    obs = []
    hosts = list(HOSTS)
    for form in ('abs', 'slashes', 'connect'):
        for hk in hosts:
            for has_port in (False, True):
                for plen in ((0, 2) if form != 'connect' else (-1,)):
                    for userinfo in (False, True):
                        if tier == 'quick':
                            if userinfo and (hk not in ('name1', 'v6a') or not has_port):
                                continue
                            if form == 'slashes' and hk not in ('name3', 'v4', 'v6c'):
                                continue
                            if plen == 0 and hk not in ('name1', 'v6b'):
                                continue
                        if form == 'connect' and not has_port and tier == 'quick' and hk not in ('name1', 'v6a'):
                            continue
                        obs.append({'name': 'target.%s.%s.%s.p%d%s' % (form, hk, 'port' if has_port else 'noport', plen, '.ui' if userinfo else ''),
                                    'fn': 'target', 'cfg': {'form': form, 'host': hk, 'port': has_port, 'plen': plen, 'userinfo': userinfo},
                                    'timeout': 300})
    for pv in (1, 80, 443, 65535):
        obs.append({'name': 'target.abs.name1.portval%d' % pv, 'fn': 'target',
                    'cfg': {'form': 'abs', 'host': 'name1', 'port': True, 'plen': 0, 'portval': pv}, 'timeout': 120})
    # userinfo = user [ ":" password ]: with an IPv6 literal and no port, without a password, with a colon inside the password
    for hk, has_port in (('v6a', False), ('v6c', False), ('v6d', False), ('name1', False), ('v4', True)):
        for ui in (True, 'u', 'u:p:q', ':p'):
            for form in ('abs', 'connect'):
                if tier == 'quick' and form == 'connect' and hk not in ('v6a', 'name1'):
                    continue
                obs.append({'name': 'target.%s.%s.%s.userinfo_%s' % (form, hk, 'port' if has_port else 'noport', str(ui).replace(':', '_')),
                            'fn': 'target', 'cfg': {'form': form, 'host': hk, 'port': has_port, 'plen': 0 if form == 'abs' else -1,
                                                    'userinfo': ui}, 'timeout': 300})
    for hk in ('name1', 'v4', 'v6a', 'v6c'):
        for form in ('abs', 'connect'):
            obs.append({'name': 'target.pool.%s.%s' % (form, hk), 'fn': 'target',
                        'cfg': {'form': form, 'host': hk, 'port': True, 'plen': 0, 'userinfo': False, 'pool': True, 'portval': 8080},
                        'timeout': 300})      # (the pool hashes (host, port): a symbolic port would be enumerated value by value)
    for form in ('abs', 'connect'):
        for sp in ('0080', '08080', '00443', '065535', '0000001'):
            obs.append({'name': 'target.%s.name1.portspell%s' % (form, sp), 'fn': 'target',
                        'cfg': {'form': form, 'host': 'name1', 'port': True, 'plen': 0, 'userinfo': False, 'portspell': sp}, 'timeout': 120})
    obs.append({'name': 'resolved.two_connections', 'fn': 'resolved', 'cfg': {}, 'timeout': 300})
    for kind in DAMAGED:
        if kind == 'spacehost':
            continue
        obs.append({'name': 'damaged.%s' % kind, 'fn': 'damaged', 'cfg': {'kind': kind}, 'timeout': 200})
    return obs


META = {
    'bounds': {
        'quick': 'forms: absolute http://, scheme-less //, CONNECT authority; hosts: reg-names with 1-3 symbolic [a-z0-9] characters, a reg-name with one symbolic two-byte UTF-8 character (U+00C0..U+00FF), IPv4 '
                 'with 2 symbolic digits, 6 IPv6 spellings (::x, x::1, 2001:db8::x:1, ::ffff:1.2.3.x, full form, ::) with a symbolic hex digit; '
                 'port absent or symbolic 1..65535 rendered with str() (plus 5 spellings with leading zeros); also with --enable-conn-pool; optional userinfo (u:p, u, u:p:q, :p); path of 0..2 symbolic visible characters; '
                 'with a resolve_dns plugin: two successive connections of one worker to the same host, ports symbolic, explicit/defaulted, http/CONNECT; '
                 'damaged: missing bracket, non-numeric/empty/negative/over-range/zero port, empty host, unknown scheme',
        'thorough': 'all combinations of form x host x port x path x userinfo',
    },
    'outside': 'symbolic digits inside an IPv4-mapped IPv6 literal (CrossHair mis-executes ipaddress on that symbolic string: its counterexample did not reproduce natively, so the spelling is checked with concrete digits); IDNA / non-ASCII hosts; origin-form targets (no outbound connection); targets with more than '
               '3 symbolic characters',
    'stubs': ['socket.socket / socket.create_connection inside proxy.common.utils replaced by recorders (the real new_socket_connection and '
              'its ipaddress-based literal/name dispatch run symbolically)', 'FakeSocket client; integer clock'],
}
