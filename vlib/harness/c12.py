"""C12 — reverse proxy routes matching requests to a configured upstream, as documented.

Real code: ReverseProxy.handle_request/routes/handle_upstream_data, HttpWebServerPlugin.on_request_complete/_try_route/
_initialize_web_plugins, ReverseProxyBasePlugin.regexes, Url.from_bytes, HttpParser.build(host=...), TcpUpstreamConnectionHandler.*.
"""
from proxy.common.flag import FlagParser
from proxy.http import Url
from proxy.http.responses import NOT_FOUND_RESPONSE_PKT
from proxy.http.server import ReverseProxyBasePlugin
from proxy.http.server import reverse as RV

from vlib import envkit, refhttp, scen
from vlib.hk import CFG, begin, ok, fail, skip, B, run, cat, concrete

envkit.install()
CHOICE = [0]


class _Random:
    @staticmethod
    def choice(seq):
        i = CHOICE[0]
        for k in range(len(seq)):
            if i == k:
                return seq[k]
        return seq[0]


RV.random = _Random


class Table(ReverseProxyBasePlugin):
    """Route table under test: static routes with 1..3 upstream URLs (explicit port / default port / https / with and
    without path), two overlapping routes, a dynamic route returning a Url and one returning a literal response."""

    def routes(self):
        return [
            (r'/get$', [b'http://up1.example/get']),
            (r'/multi', [b'http://m1.example:8081/one', b'http://m2.example', b'https://m3.example/three']),
            (r'/multi/x', [b'http://shadowed.example/never']),
            (r'/tls$', [b'https://sec.example:8443/s']),
            (r'/p1$', [b'http://same.example:9001/one']),
            (r'/p2$', [b'http://same.example:9002/two']),
            r'/dyn/url',
            r'/dyn/lit',
            r'/dyn/mut$',
        ]

    def handle_route(self, request, pattern):
        if pattern.pattern == r'/dyn/url':
            return Url.from_bytes(b'http://dyn.example:9000/d')
        if pattern.pattern == r'/dyn/mut$':
            # what the shipped ReverseProxyPlugin does: parse an upstream URL and adjust the parsed object for this request
            u = Url.from_bytes(b'http://up1.example/get')
            u.remainder += b'?id=7'
            return u
        return memoryview(b'HTTP/1.1 200 OK\r\nContent-Length: 3\r\n\r\nlit')


FL = {
    False: FlagParser.initialize(['--threadless', '--enable-reverse-proxy', '--disable-http-proxy'], plugins=[Table]),
    True: FlagParser.initialize(['--threadless', '--enable-reverse-proxy', '--disable-http-proxy', '--rewrite-host-header'], plugins=[Table]),
}
METHODS = [b'GET', b'POST', b'PUT', b'DELETE']
WRAPS = []


def _wrap(self, hostname=None, ca_file=None, as_non_blocking=False, verify_mode=None):
    WRAPS.append((self.addr, hostname))


from proxy.core.connection.server import TcpServerConnection
TcpServerConnection.wrap = _wrap

# expected target per (route, choice): (host, port, tls, path-or-None)
TARGETS = {
    'get': [('up1.example', 80, False, b'/get')],
    'multi': [('m1.example', 8081, False, b'/one'), ('m2.example', 80, False, None), ('m3.example', 443, True, b'/three')],
    'tls': [('sec.example', 8443, True, b'/s')],
    'dynurl': [('dyn.example', 9000, False, b'/d')],
    'dynmut': [('up1.example', 80, False, b'/get?id=7')],
    'p1': [('same.example', 9001, False, b'/one')],
    'p2': [('same.example', 9002, False, b'/two')],
}


def _route_of(path):
    """Independent statement of which route a path selects (first match wins, patterns anchored at the start)."""
    if path == '/get':
        return 'get'
    if path.startswith('/multi'):
        return 'multi'
    if path == '/tls':
        return 'tls'
    if path.startswith('/dyn/url'):
        return 'dynurl'
    if path.startswith('/dyn/lit'):
        return 'dynlit'
    if path == '/dyn/mut':
        return 'dynmut'
    if path == '/p1':
        return 'p1'
    if path == '/p2':
        return 'p2'
    return None


def route(p0: int, p1: int, p2: int, idx: int, v0: int, d0: int, d1: int) -> bool:
    """
    pre: 33 <= p0 <= 126 and 33 <= p1 <= 126 and 33 <= p2 <= 126
    pre: 0 <= idx <= 2
    pre: 33 <= v0 <= 126
    pre: 0 <= d0 < 256 and 0 <= d1 < 256
    post: _
    """
    begin()
    rewrite = CFG['rewrite']
    prefix = CFG['prefix']
    nsym = CFG['nsym']
    method = METHODS[CFG['method']]
    blen = CFG['blen']
    sym = [p0, p1, p2][:nsym]
    for c in sym:
        if c == 35 or c == 63:
            pass
    path_b = prefix.encode() + B(*sym)
    if path_b.startswith(b'//'):
        return skip()
    body = B(d0, d1)[:blen]
    req = method + b' ' + path_b + b' HTTP/1.1\r\n' + CFG.get('hostspell', 'Host').encode() + b': front.example\r\nX-K: ' + B(v0) + b'\r\n'
    if CFG.get('upgrade'):
        # a websocket handshake addressed to a reverse-proxy route is a request like any other: it is forwarded
        req = req + b'Connection: Upgrade\r\nUpgrade: websocket\r\nSec-WebSocket-Key: dGhlIHNhbXBsZSBub25jZQ==\r\nSec-WebSocket-Version: 13\r\n'
    if blen:
        req = req + b'Content-Length: ' + (b'%d' % blen) + b'\r\n'
    req = req + b'\r\n' + body
    CHOICE[0] = idx
    del WRAPS[:]
    with concrete():
        env = envkit.new_env()
        h, cs = envkit.make_handler(FL[rewrite], env)
    cs.inq.append(req)
    try:
        td = run(h.handle_events([cs.fd], []))
    except Exception as e:
        return fail('exception left handle_events', exc=repr(e), path=repr(path_b))
    closing = bool(td) or h.must_flush_before_shutdown
    out = cat(h.work.buffer)
    r = _route_of(path_b.decode('latin-1'))
    if r is None:
        if out != NOT_FOUND_RESPONSE_PKT.tobytes() or not closing:
            return fail('request matching no route not answered with 404 + close', out=repr(out[:60]), path=repr(path_b))
        if env.connects:
            return fail('outbound connection although no route matched', connects=repr(env.connects))
        return ok()
    if closing:
        return fail('request matching a route was rejected', out=repr(out[:60]), path=repr(path_b))
    if r == 'dynlit':
        if env.connects:
            return fail('outbound connection for a route that answers with a literal response')
        if out != b'HTTP/1.1 200 OK\r\nContent-Length: 3\r\n\r\nlit':
            return fail('literal route response altered', out=repr(out))
        return ok()
    tg = TARGETS[r]
    host, port, tls, upath = tg[idx] if idx < len(tg) else tg[0]
    if len(env.connects) != 1:
        return fail('not exactly one outbound connection', connects=repr(env.connects))
    if env.connects[0][0] != (host, port):
        return fail('connected to a different upstream than the route/URL names', got=repr(env.connects[0][0]), want=repr((host, port)))
    if tls != (len(WRAPS) == 1):
        return fail('TLS wrap does not follow the URL scheme', wraps=repr(WRAPS), tls=tls)
    if tls and WRAPS[0][1] != host:
        return fail('TLS server_hostname is not the upstream host', wraps=repr(WRAPS))
    us = env.connects[0][1]
    sent = envkit.pending(h.plugin.route.upstream)
    try:
        m = refhttp.read_message(sent, False)
    except refhttp.Malformed as e:
        return fail('request sent upstream is malformed', why=str(e), sent=repr(sent[:120]))
    if m['start'][0] != method:
        return fail('method not preserved', got=repr(m['start'][0]))
    want_path = upath if upath is not None else b'/'
    if m['start'][1] != want_path:
        return fail('request path is not the upstream URL path', got=repr(m['start'][1]), want=repr(want_path))
    hs = [(k, v) for k, n, v in m['headers']]
    explicit_port = (r, idx if idx < len(tg) else 0) in (('multi', 0), ('tls', 0), ('dynurl', 0), ('p1', 0), ('p2', 0))
    want_host = (host.encode() + ((b':%d' % port) if explicit_port else b'')) if rewrite else b'front.example'
    hosts = [v for k, v in hs if k == b'host']
    if hosts != [want_host]:
        return fail('Host header wrong for this rewrite setting', got=repr(hosts), want=repr(want_host), rewrite=rewrite)
    if (b'x-k', B(v0)) not in hs:
        return fail('other header not preserved', hs=repr(hs))
    if m['body'] != body or m['remainder'] != b'':
        return fail('body not preserved', got=repr(m['body']))
    # the upstream's reply is relayed unmodified
    reply = b'HTTP/1.1 200 OK\r\nContent-Length: 2\r\n\r\n' + B(d1, d0)
    us.inq.append(reply)
    try:
        td = run(h.handle_events([us.fd], []))
    except Exception as e:
        return fail('exception while relaying the reply', exc=repr(e))
    if cat(h.work.buffer) != reply:
        return fail('upstream reply not relayed unmodified', got=repr(cat(h.work.buffer)))
    follow = CFG.get('follow')
    if follow:
        # a later request on the same connection that matches no route / a literal route must not reach any upstream
        run(h.handle_events([], [cs.fd]))
        before = len(envkit.pending(h.plugin.route.upstream)) + len(us.out)
        nconn = len(env.connects)
        if follow == 'again':
            # a follow-up request to the SAME route, arriving in two reads cut at a fixed position: it is forwarded once, whole
            req2 = b'POST ' + path_b + b' HTTP/1.1\r\nHost: front.example\r\nContent-Length: 1\r\n\r\n' + B(d0)
            cut = CFG['fcut']
            for sg in ([req2[:cut], req2[cut:]] if cut else [req2]):
                cs.inq.append(sg)
                try:
                    td = run(h.handle_events([cs.fd], []))
                except Exception as e:
                    return fail('exception on a follow-up request split over two reads', exc=repr(e), cut=cut)
                if td or h.must_flush_before_shutdown:
                    return fail('follow-up request split over two reads was rejected', cut=cut, out=repr(cat(h.work.buffer)[len(reply):][:60]))
            up = h.plugin.route.upstream
            if len(env.connects) == nconn:
                new = (us.out + envkit.pending(up))[before:]
            elif len(env.connects) == nconn + 1 and env.connects[nconn][0] == (host, port):
                new = envkit.pending(up)
            else:
                return fail('follow-up request to the same route connected elsewhere', connects=repr([a for a, s_ in env.connects]))
            try:
                m2 = refhttp.read_message(new, False)
            except refhttp.Malformed as e:
                return fail('follow-up request split over two reads did not reach the upstream intact', why=str(e), sent=repr(new[:80]), cut=cut)
            if m2['start'][0] != b'POST' or m2['start'][1] != want_path or m2['body'] != B(d0) or m2['remainder'] != b'':
                return fail('follow-up request split over two reads was altered', sent=repr(new[:80]), cut=cut)
            return ok()
        p2 = b'/dyn/lit' if follow == 'lit' else (b'/p2' if follow == 'otherport' else b'/nothing-here')
        cs.inq.append(b'GET ' + p2 + b' HTTP/1.1\r\nHost: front.example\r\n\r\n')
        try:
            td = run(h.handle_events([cs.fd], []))
        except Exception as e:
            return fail('exception on the follow-up request', exc=repr(e))
        if follow == 'otherport':
            # the follow-up request names a route whose upstream is the SAME host on ANOTHER port: it goes there, not onto the
            # connection that is already open to that host
            if len(env.connects) != nconn + 1 or env.connects[nconn][0] != ('same.example', 9002):
                return fail('follow-up request to the same host on another port did not open a connection to that port',
                            connects=repr([a for a, s_ in env.connects]))
            if len(us.out) + 0 != before - len(envkit.pending(h.plugin.route.upstream)) and False:
                pass
            us2 = env.connects[nconn][1]
            sent2 = envkit.pending(h.plugin.route.upstream)
            try:
                m2 = refhttp.read_message(sent2, False)
            except refhttp.Malformed as e:
                return fail('follow-up request sent upstream is malformed', why=str(e), sent=repr(sent2[:80]))
            if m2['start'][1] != b'/two':
                return fail('follow-up request not forwarded with its route\'s URL path', got=repr(m2['start'][1]))
            return ok()
        if len(env.connects) != nconn:
            return fail('follow-up request that matches no upstream route caused an outbound connection', connects=repr(env.connects[nconn:]))
        up = h.plugin.route.upstream
        after = (len(envkit.pending(up)) if up is not None else 0) + len(us.out)
        if after != before:
            return fail('follow-up request that matches no upstream route was forwarded to the previous upstream')
        out2 = cat(h.work.buffer)
        if follow == 'lit' and out2 != b'HTTP/1.1 200 OK\r\nContent-Length: 3\r\n\r\nlit':
            return fail('literal route response altered on a follow-up request', out=repr(out2[:80]))
    return ok()


def sequence(v0: int, order: int) -> bool:
    """
    pre: 33 <= v0 <= 126
    pre: 0 <= order <= 3
    post: _
    """
    begin()
    # several requests of one worker process, each on a new connection: what a dynamic route does with ITS parsed upstream URL must
    # not leak into later requests (to the same dynamic route, or to a static route naming the same upstream URL)
    seqs = [['/dyn/mut', '/get'], ['/dyn/mut', '/dyn/mut'], ['/get', '/dyn/mut', '/get'], ['/dyn/mut', '/get', '/dyn/mut']]
    seq = None
    for k in range(4):
        if order == k:
            seq = seqs[k]
    CHOICE[0] = 0
    with concrete():
        env = envkit.new_env()
    for i, pth in enumerate(seq):
        with concrete():
            h, cs = envkit.make_handler(FL[False], env, name='client%d' % i)
        nconn = len(env.connects)
        cs.inq.append(b'GET ' + pth.encode() + b' HTTP/1.1\r\nHost: front.example\r\nX-K: ' + B(v0) + b'\r\n\r\n')
        try:
            td = run(h.handle_events([cs.fd], []))
        except Exception as e:
            return fail('exception left handle_events', exc=repr(e), request=i, path=pth)
        if td or h.must_flush_before_shutdown:
            return fail('request %d (%s) matching a route was rejected' % (i, pth), out=repr(cat(h.work.buffer)[:60]))
        host, port, tls, upath = TARGETS[_route_of(pth)][0]
        if len(env.connects) != nconn + 1 or env.connects[nconn][0] != (host, port):
            return fail('request %d (%s): wrong outbound connection' % (i, pth), connects=repr(env.connects[nconn:]))
        sent = envkit.pending(h.plugin.route.upstream)
        try:
            m = refhttp.read_message(sent, False)
        except refhttp.Malformed as e:
            return fail('request %d sent upstream is malformed' % i, why=str(e))
        if m['start'][1] != upath:
            return fail('request %d (%s) forwarded with a path other than its route\'s URL path' % (i, pth), got=repr(m['start'][1]),
                        want=repr(upath), history=repr(seq[:i]))
    return ok()


def selftest():
    import re
    # oracle validation: _route_of agrees with first-match re.match over the table on sample paths
    pats = [(r'/get$', 'get'), (r'/multi', 'multi'), (r'/multi/x', 'multi'), (r'/tls$', 'tls'), (r'/p1$', 'p1'), (r'/p2$', 'p2'), (r'/dyn/url', 'dynurl'), (r'/dyn/lit', 'dynlit'), (r'/dyn/mut$', 'dynmut')]
    n = 0
    for p in ['/get', '/get/', '/getx', '/ge', '/multi', '/multi/x', '/multiple', '/tls', '/tlsx', '/dyn/url', '/dyn/urlz', '/dyn/lit', '/dyn/li', '/dyn/mut', '/dyn/mutx', '/p1', '/p2', '/p1x',
              '/', '/x', '/GET', '/api', '/get?x', '/tls?']:
        want = None
        for pat, nm in pats:
            if re.compile(pat).match(p):
                want = nm
                break
        assert _route_of(p) == want, (p, _route_of(p), want)
        n += 1
    return n + refhttp.selftest()


def obligations(tier):
    obs = []
    T = 600
    prefixes = [('/get', 0), ('/get', 1), ('/ge', 1), ('/multi', 0), ('/multi', 2), ('/multi/x', 0), ('/tls', 0), ('/tls', 1), ('/dyn/url', 0),
                ('/dyn/url', 1), ('/dyn/lit', 0), ('/dyn/li', 1), ('/', 2), ('/g', 2)]
    if tier == 'thorough':
        prefixes += [('/', 3), ('/mult', 2), ('/dyn/', 3), ('/tl', 2)]
    for rewrite in (False, True):
        for prefix, nsym in prefixes:
            for mi, blen in ((0, 0), (1, 2)):
                if tier == 'quick' and mi == 1 and nsym > 0:
                    continue
                obs.append({'name': 'route.%s.%s+%d.%s.b%d' % ('rewrite' if rewrite else 'keep', prefix.replace('/', '_'), nsym,
                                                               METHODS[mi].decode(), blen), 'fn': 'route',
                            'cfg': {'rewrite': rewrite, 'prefix': prefix, 'nsym': nsym, 'method': mi, 'blen': blen}, 'timeout': T})
    for follow in ('lit', 'none'):
        for prefix in ('/get', '/multi', '/dyn/url'):
            obs.append({'name': 'route.follow_%s.after%s' % (follow, prefix.replace('/', '_')), 'fn': 'route',
                        'cfg': {'rewrite': False, 'prefix': prefix, 'nsym': 0, 'method': 0, 'blen': 0, 'follow': follow}, 'timeout': T})
    obs.append({'name': 'route.follow_otherport.after_p1', 'fn': 'route',
                'cfg': {'rewrite': False, 'prefix': '/p1', 'nsym': 0, 'method': 0, 'blen': 0, 'follow': 'otherport'}, 'timeout': T})
    for prefix in ('/get', '/multi'):
        for fcut in (0, 1, 7, 30, -3, -1):
            if tier == 'quick' and prefix == '/multi' and fcut in (1, 30):
                continue
            obs.append({'name': 'route.follow_again.after%s.cut%d' % (prefix.replace('/', '_'), fcut), 'fn': 'route',
                        'cfg': {'rewrite': False, 'prefix': prefix, 'nsym': 0, 'method': 0, 'blen': 0, 'follow': 'again', 'fcut': fcut},
                        'timeout': T})
    for spell in ('host', 'HOST', 'hOsT'):
        for prefix in ('/get', '/tls'):
            obs.append({'name': 'route.rewrite.%s.spelled_%s' % (prefix.replace('/', '_'), spell), 'fn': 'route',
                        'cfg': {'rewrite': True, 'prefix': prefix, 'nsym': 0, 'method': 0, 'blen': 0, 'hostspell': spell}, 'timeout': T})
        obs.append({'name': 'route.keep._get.spelled_%s' % spell, 'fn': 'route',
                    'cfg': {'rewrite': False, 'prefix': '/get', 'nsym': 0, 'method': 0, 'blen': 0, 'hostspell': spell}, 'timeout': T})
    for prefix in ('/get', '/multi', '/p1'):
        obs.append({'name': 'route.upgrade.%s' % prefix.replace('/', '_'), 'fn': 'route',
                    'cfg': {'rewrite': False, 'prefix': prefix, 'nsym': 0, 'method': 0, 'blen': 0, 'upgrade': True}, 'timeout': T})
    obs.append({'name': 'route.keep._dyn_mut+0.GET.b0', 'fn': 'route',
                'cfg': {'rewrite': False, 'prefix': '/dyn/mut', 'nsym': 0, 'method': 0, 'blen': 0}, 'timeout': T})
    obs.append({'name': 'sequence.dynamic_then_static', 'fn': 'sequence', 'cfg': {}, 'timeout': T})
    # the same four histories natively: CrossHair bypasses functools caches while tracing, so state kept in such a cache is only visible
    # to a native run (concrete vectors, NOT a solver claim)
    obs.append({'name': 'concrete.sequence', 'kind': 'concrete', 'fn': 'sequence', 'cfg': {}, 'group': 'concrete',
                'args_list': [[33, k] for k in range(4)] + [[126, 1]], 'timeout': 60})
    for mi in (2, 3):
        obs.append({'name': 'route.keep._get+0.%s.b1' % METHODS[mi].decode(), 'fn': 'route',
                    'cfg': {'rewrite': False, 'prefix': '/get', 'nsym': 0, 'method': mi, 'blen': 1}, 'timeout': T})
    return obs


META = {
    'bounds': {
        'quick': 'route table with 6 routes (static with 1 URL, static with 3 URLs mixing explicit port / default port / https / no path, an '
                 'overlapping shadowed route, https with port, dynamic returning a Url, dynamic returning a literal response); upstream choice '
                 'index symbolic; request path = 14 concrete prefixes + 0..2 symbolic visible characters (so it matches none/one/several routes); '
                 'methods GET/POST/PUT/DELETE; one header with a symbolic value byte; body 0..2 symbolic bytes; --rewrite-host-header on/off; '
                 'the upstream reply (2 symbolic bytes) relayed back; a follow-up request on the same connection that matches no route / a literal route / a route to the same host on another port / the same route again with the request cut over two reads at 5 positions; the Host header spelled host/HOST/hOsT with and without --rewrite-host-header; a websocket handshake addressed to a route; sequences of 2-3 requests on new '
                 'connections of the same process mixing a dynamic route that adjusts its parsed upstream URL with a static route naming the same URL',
        'thorough': 'up to 3 symbolic path characters on more prefixes',
    },
    'outside': 'TLS handshake with the upstream (wrap() replaced by a recorder), regexes other than the table\'s, dynamic routes returning a '
               'ready TcpServerConnection, websocket frames after an upgrade through the reverse proxy',
    'stubs': ['random.choice -> solver-chosen index', 'TcpServerConnection.wrap -> recorder', 'connect stub', 'FakeSocket',
              'reference reader vlib/refhttp.py'],
}
