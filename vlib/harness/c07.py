"""C07 — queued output is fully delivered before the proxy closes a connection.

Real code: BaseTcpServerHandler.get_events/handle_writables/handle_readables (must_flush_before_shutdown),
HttpProtocolHandler.handle_events/shutdown/_flush/run/_run_once, TcpConnection.flush,
Threadless._run_once/_selected_events/_update_work_events/_cleanup.
"""
import selectors

from proxy.common.flag import FlagParser
from proxy.http import handler as H
from proxy.http.responses import BAD_REQUEST_RESPONSE_PKT, NOT_FOUND_RESPONSE_PKT, PROXY_AUTH_FAILED_RESPONSE_PKT
from proxy.http.server import plugin as SP

from vlib import envkit, refhttp, scen
from vlib.hk import CFG, begin, ok, fail, skip, B, run, cat, concrete

envkit.install()
FL = {
    'proxy': FlagParser.initialize(['--threadless', '--max-sendbuf-size', '16']),
    'auth': FlagParser.initialize(['--threadless', '--max-sendbuf-size', '64', '--basic-auth', 'u:p']),
    'web': FlagParser.initialize(['--threadless', '--max-sendbuf-size', '32', '--enable-web-server', '--disable-http-proxy',
                                  '--enable-static-server', '--static-server-dir', '/srv/www', '--min-compression-length', '100000']),
    'hello': FlagParser.initialize(['--threadless', '--max-sendbuf-size', '16', '--enable-web-server', '--disable-http-proxy'],
                                   plugins=[scen.HelloRoute]),
    'proxy_t': FlagParser.initialize(['--threaded', '--max-sendbuf-size', '16']),
}
SP.open = lambda path, mode='r': _F(path)
SP.mimetypes.guess_type = lambda p: ('text/plain', None)


class _F:
    def __init__(self, path):
        if not path.endswith('/srv/www/f'):
            raise FileNotFoundError(2, 'no', path)

    def read(self):
        return b'FILE-CONTENT-0123456789'

    def __enter__(self):
        return self

    def __exit__(self, *a):
        return False


class _LoopShim:
    def run_until_complete(self, coro):
        return run(coro)

    def close(self):
        pass


class _AsyncioShim:
    @staticmethod
    def new_event_loop():
        return _LoopShim()


H.asyncio = _AsyncioShim
RESP_HEAD = b'HTTP/1.1 200 OK\r\nContent-Length: 3\r\n\r\n'


def flush_close(d0: int, d1: int, d2: int, s0: int, s1: int, s2: int, s3: int, eof_at: int) -> bool:
    """
    pre: 0 <= d0 < 256 and 0 <= d1 < 256 and 0 <= d2 < 256
    pre: 0 <= s0 <= 4 and 0 <= s1 <= 4 and 0 <= s2 <= 4 and 0 <= s3 <= 3
    pre: 0 <= eof_at <= 3
    post: _
    """
    begin()
    cause = CFG['cause']
    fin = CFG.get('fin')            # the client half-closes (FIN) after its request: at this iteration / 'eof': together with the upstream's EOF
    role = {'bad': 'proxy', 'unknown_scheme': 'proxy', 'auth': 'auth', 'web404': 'web', 'static': 'web', 'static404': 'web',
            'upstream_eof': 'proxy', 'connect_fail': 'proxy', 'hello': 'hello'}[cause]
    with concrete():
        env = envkit.new_env()
        if cause == 'connect_fail':
            env.connect_script = [ConnectionRefusedError(111, 'refused')]
        xk = envkit.Executor(FL[role], env)
        cs = xk.accept('client')
    ex = xk.ex
    cs.mode = 'fair'
    cs.sendscript = [s0, s1, s2]
    if 'eof_at' in CFG:
        if eof_at != CFG['eof_at']:
            return skip()
        eof_at = CFG['eof_at']
    expected = None
    if cause == 'bad':
        cs.inq.append(b'GARBAGE' + B(d0) + b'\r\n\r\n')
        if d0 == 32 or d0 == 13 or d0 == 10:
            return skip()
        expected = BAD_REQUEST_RESPONSE_PKT.tobytes()
    elif cause == 'unknown_scheme':
        cs.inq.append(b'GET ftp://h/' + B(d0) + b' HTTP/1.1\r\n\r\n')
        if d0 <= 32:
            return skip()
        expected = BAD_REQUEST_RESPONSE_PKT.tobytes()
    elif cause == 'auth':
        cs.inq.append(b'GET http://h/ HTTP/1.1\r\nProxy-Authorization: Basic ' + B(d0, d1) + b'\r\n\r\n')
        if d0 <= 32 or d1 <= 32:
            return skip()
        expected = PROXY_AUTH_FAILED_RESPONSE_PKT.tobytes()
    elif cause == 'web404':
        cs.inq.append(b'GET /nothing' + B(d0) + b' HTTP/1.1\r\nHost: x\r\n\r\n')
        if d0 <= 32 or d0 == 63 or d0 >= 127:
            return skip()       # a non-ASCII path byte is answered by a plain close (C06), there is no output to deliver
        expected = NOT_FOUND_RESPONSE_PKT.tobytes()
    elif cause == 'static':
        cs.inq.append(b'GET /f HTTP/1.1\r\nHost: x\r\n\r\n')
    elif cause == 'static404':
        cs.inq.append(b'GET /g HTTP/1.1\r\nHost: x\r\n\r\n')
        expected = NOT_FOUND_RESPONSE_PKT.tobytes()
    elif cause == 'hello':
        # a web route's ordinary keep-alive reply; it is the client's FIN that ends the connection
        cs.inq.append(b'GET /hello HTTP/1.1\r\nHost: x\r\n\r\n')
    elif cause == 'connect_fail':
        cs.inq.append(b'GET http://h/ HTTP/1.1\r\n\r\n')
    else:
        cs.inq.append(b'GET http://h/ HTTP/1.1\r\n\r\n')
    upstream_script = None
    if cause == 'upstream_eof':
        body = B(d0, d1, d2)
        segs = CFG['segs']          # how the upstream's bytes are segmented: list of lengths over RESP_HEAD+body
        data = RESP_HEAD + body
        pieces = []
        p = 0
        for ln in segs:
            pieces.append(data[p:p + ln])
            p += ln
        pieces.append(data[p:])
        upstream_script = [x for x in pieces if len(x) > 0]
        expected = data
    us = None
    fed = 0
    eof_sent = False
    flushing_seen = False
    total_budget = 140
    for step in range(total_budget):
        # upstream behaviour for the upstream_eof cause: one segment per step once connected, then EOF `eof_at` steps later
        if upstream_script is not None and env.connects and us is None:
            us = env.connects[0][1]
        if us is not None and upstream_script is not None and not us.closed:
            if fed < len(upstream_script):
                us.inq.append(upstream_script[fed])
                fed += 1
                eof_wait = eof_at
            elif not eof_sent:
                if eof_wait == 0:
                    us.inq.append(b'')
                    eof_sent = True
                    if fin == 'eof' and not cs.closed:
                        cs.inq.append(b'')
                else:
                    eof_wait -= 1
        if fin == step and not cs.closed:
            cs.inq.append(b'')
        e = xk.step()
        if e is not None:
            return fail('exception left the executor loop', exc=repr(e), step=step)
        w = ex.works.get(cs.fd)
        if w is not None and w.must_flush_before_shutdown:
            flushing_seen = True
            key = ex.selector.map.get(cs.fd)
            if key is not None and (key.events & selectors.EVENT_READ):
                pass    # registration is refreshed at the start of the next iteration; checked below via get_events
            ev = run(w.get_events())
            if cs.fd in ev and (ev[cs.fd] & selectors.EVENT_READ):
                return fail('read interest kept while flushing before shutdown', step=step)
        if cs.closed:
            break
    if not cs.closed:
        return fail('connection never closed although the proxy decided to end it', out=repr(cs.out[-40:]), steps=total_budget)
    if cs.misuse:
        return fail('socket used after close()', misuse=repr(cs.misuse))
    if expected is None:
        if cause == 'static':
            if not cs.out_at_close.startswith(b'HTTP/1.1 200 OK\r\n') or not cs.out_at_close.endswith(b'\r\n\r\nFILE-CONTENT-0123456789'):
                return fail('static reply truncated at close', out=repr(cs.out_at_close))
        elif cause == 'hello':
            try:
                m = refhttp.read_message(cs.out_at_close, True)
            except refhttp.Malformed as e:
                return fail('route reply truncated at close', why=str(e), out=repr(cs.out_at_close[-60:]))
            if m['body'] != b'hello:/hello' or m['remainder'] != b'':
                return fail('route reply not delivered exactly once before the close', out=repr(cs.out_at_close[-60:]))
        elif cause == 'connect_fail':
            if not cs.out_at_close.startswith(b'HTTP/1.1 502 ') or not cs.out_at_close.endswith(b'Bad Gateway'):
                return fail('502 reply truncated at close', out=repr(cs.out_at_close))
    elif cs.out_at_close != expected:
        return fail('client saw end-of-stream before all queued output', got=repr(cs.out_at_close[-60:]), want_len=len(expected),
                    got_len=len(cs.out_at_close))
    if cs.fd in ex.works or cs.fd in ex.selector.map:
        return fail('closed connection still known to the executor')
    return ok()


def threaded(d0: int, d1: int, d2: int, s0: int, s1: int, s2: int, s3: int, eof_at: int) -> bool:
    """
    pre: 0 <= d0 < 256 and 0 <= d1 < 256 and 0 <= d2 < 256
    pre: 0 <= s0 <= 3 and 0 <= s1 <= 3 and 0 <= s2 <= 3 and 0 <= s3 <= 3
    pre: 0 <= eof_at <= 2
    post: _
    """
    begin()
    # thread-per-connection driver: run() loop + blocking _flush() in shutdown()
    cause = CFG['cause']
    with concrete():
        env = envkit.new_env()
        h, cs = envkit.make_handler(FL['proxy_t'], env)
    sel = h.selector
    sel.auto = {cs.fd: cs}
    cs.mode = 'fair'
    cs.sendscript = [s0, s1, s2]
    if 'eof_at' in CFG:
        if eof_at != CFG['eof_at']:
            return skip()
        eof_at = CFG['eof_at']
    h.initialize = lambda: None
    if cause == 'bad':
        if d0 == 32 or d0 == 13 or d0 == 10:
            return skip()
        cs.inq.append(b'GARBAGE' + B(d0) + b'\r\n\r\n')
        expected = BAD_REQUEST_RESPONSE_PKT.tobytes()
    else:
        cs.inq.append(b'GET http://h/ HTTP/1.1\r\n\r\n')
        expected = RESP_HEAD + B(d0, d1, d2)
    st = {'n': 0, 'fed': False, 'eof': False}
    real_select = sel.select

    def select(timeout=None):
        st['n'] += 1
        if st['n'] > 200:
            raise RuntimeError('harness-error: run() does not terminate')
        for s in env.sockets:
            sel.auto[s.fd] = s
        if cause != 'bad' and env.connects:
            us = env.connects[0][1]
            if not st['fed'] and us.out:
                us.inq.append(expected)
                st['fed'] = True
                st['at'] = st['n']
            elif st['fed'] and not st['eof'] and st['n'] >= st['at'] + eof_at:
                us.inq.append(b'')
                st['eof'] = True
        return real_select(timeout)
    sel.select = select
    try:
        h.run()
    except Exception as e:
        return fail('run() raised', exc=repr(e))
    if not cs.closed:
        return fail('client socket not closed when run() returned')
    if cs.misuse:
        return fail('socket used after close()', misuse=repr(cs.misuse))
    if cs.out_at_close != expected:
        return fail('client saw end-of-stream before all queued output (threaded mode)', got_len=len(cs.out_at_close), want_len=len(expected))
    return ok()


def obligations(tier):
    obs = []
    for cause in ('bad', 'unknown_scheme', 'auth', 'web404', 'static', 'static404', 'connect_fail'):
        obs.append({'name': 'flush.%s' % cause, 'fn': 'flush_close', 'cfg': {'cause': cause}, 'timeout': 400, 'group': 'flush_close'})
    # the client half-closes while the reply is (partly) still queued
    for cause in ('bad', 'web404', 'static'):
        obs.append({'name': 'flush.%s.fin1' % cause, 'fn': 'flush_close', 'cfg': {'cause': cause, 'fin': 1}, 'timeout': 400, 'group': 'flush_close'})
    for f in (0, 1, 2):
        obs.append({'name': 'flush.hello.fin%d' % f, 'fn': 'flush_close', 'cfg': {'cause': 'hello', 'fin': f}, 'timeout': 400, 'group': 'flush_close'})
    n = len(RESP_HEAD) + 3
    seglists = [[], [n - 3], [n - 1], [10, n - 13], [n - 3, 1, 1]]
    if tier == 'thorough':
        seglists += [[k] for k in range(1, n, 3)]
    for segs in seglists:
        for ea in (0, 1, 2, 3):
            if tier == 'quick' and ea == 2:
                continue
            obs.append({'name': 'flush.upstream_eof.segs%s.eof%d' % ('_'.join(map(str, segs)) or 'whole', ea), 'fn': 'flush_close',
                        'cfg': {'cause': 'upstream_eof', 'segs': segs, 'eof_at': ea}, 'timeout': 600, 'group': 'flush_close'})
    for segs in ([], [n - 3]):
        for ea in (0, 1):
            obs.append({'name': 'flush.upstream_eof.segs%s.eof%d.fin' % ('_'.join(map(str, segs)) or 'whole', ea), 'fn': 'flush_close',
                        'cfg': {'cause': 'upstream_eof', 'segs': segs, 'eof_at': ea, 'fin': 'eof'}, 'timeout': 600, 'group': 'flush_close'})
    obs.append({'name': 'threaded.bad', 'fn': 'threaded', 'cfg': {'cause': 'bad', 'eof_at': 0}, 'timeout': 400, 'group': 'threaded'})
    for ea in (0, 1, 2):
        obs.append({'name': 'threaded.upstream_eof.eof%d' % ea, 'fn': 'threaded', 'cfg': {'cause': 'upstream_eof', 'eof_at': ea},
                    'timeout': 400, 'group': 'threaded'})
    return obs


META = {
    'bounds': {
        'quick': 'causes: 400 for garbage / unknown scheme, 407, web 404, static file reply, static 404, 502 after connect refusal, and upstream '
                 'data (38-byte response with 3 symbolic body bytes in 1..4 segments) followed by upstream EOF 0..3 iterations later; real '
                 'executor loop (_run_once) until the client socket is closed; client send outcome per write is a solver-chosen class among '
                 '{everything, one byte, all but one byte, half, one spurious wake-up (EAGAIN)} (the client keeps reading) for the first 3 writes; '
                 'the client optionally half-closes (and stays readable at end-of-stream) while the reply is still queued, with '
                 '--max-sendbuf-size 16/32/64 so that replies need several writes; threaded run() variant for two causes',
        'thorough': 'upstream segmentation at every third position',
    },
    'outside': 'outputs larger than ~150 bytes; EAGAIN storms beyond 3 spurious wake-ups (a write-ready socket that never accepts anything is excluded by the property\'s '
               '"provided it keeps reading"); kernel RST behaviour; TLS',
    'stubs': ['FakeSocket (fair short writes), connect stub, FakeSelector deriving readiness from the fake sockets, FakeLoop/asyncio shim',
              'FakeFS for the static file'],
}
