"""C04 — each request on a persistent connection is answered in order by the right origin.

Real code: HttpProtocolHandler.handle_data, HttpProxyPlugin.on_client_data/read_from_descriptors,
HttpWebServerPlugin.on_request_complete/on_client_data/_try_route, ReverseProxy.handle_request,
TcpUpstreamConnectionHandler.*, HttpParser, Threadless._run_once (descriptor (re)registration per work).
"""
from vlib import envkit, refhttp, scen
from vlib.hk import CFG, begin, ok, fail, skip, B, run, cat, concrete

envkit.install()


def _req(role, i, origin, d, body, close=False):
    p = b'/r%d' % i + B(d)
    if role == 'forward':
        head = (b'POST' if body else b'GET') + b' http://' + origin + p + b' HTTP/1.1\r\nHost: ' + origin + b'\r\n'
    elif role == 'web':
        head = (b'POST' if body else b'GET') + b' /' + origin + p + b' HTTP/1.1\r\nHost: x\r\n'
    else:
        rp = {b'up1.example': b' /get', b'literal': b' /lit', b'same.example:9001': b' /p1', b'same.example:9002': b' /p2'}.get(origin, b' /api/x')
        head = (b'POST' if body else b'GET') + rp + b' HTTP/1.1\r\nHost: x\r\nX-I: ' + (b'%d' % i) + B(d) + b'\r\n'
    if body:
        head = head + b'Content-Length: 2\r\n'
    if close:
        head = head + b'Connection: close\r\n'
    return head + b'\r\n' + (b'B' + (b'%d' % i) if body else b'')


def _split_requests(data):
    """Independent splitter of a request stream received by an upstream (reference reader)."""
    out = []
    while len(data) > 0:
        try:
            m = refhttp.read_message(data, False)
        except refhttp.Malformed:
            break
        out.append(m)
        data = m['remainder']
    return out, data


def _split_responses(data):
    out = []
    while len(data) > 0:
        try:
            m = refhttp.read_message(data, True)
        except refhttp.Malformed:
            break
        out.append(m)
        data = m['remainder']
    return out, data


def persistent(d0: int, d1: int, d2: int, order: int) -> bool:
    """
    pre: 97 <= d0 <= 122 and 97 <= d1 <= 122 and 97 <= d2 <= 122
    pre: 0 <= order <= 1
    post: _
    """
    begin()
    role = CFG['role']
    n = CFG['n']
    origins = [o.encode() for o in CFG['origins']]
    bodies = CFG.get('bodies', [False] * n)
    packing = CFG['packing']           # 'separate' | 'together' | ['cut', position]
    if CFG.get('waits'):
        if order != 1:
            return skip()
        order = 1       # the client waits for each response before sending on
    ds = [d0, d1, d2]
    close_last = CFG.get('close_last', False)      # the client announces, with its last request, that it will close afterwards
    reqs = [_req(role, i, origins[i], ds[i], bodies[i], close_last and i == n - 1) for i in range(n)]
    stream = b''
    for r in reqs:
        stream = stream + r
    if packing == 'separate':
        segs = list(reqs)
    elif packing == 'together':
        segs = [stream]
    elif packing[0] == 'cut_last':
        # every request in its own segment, the last one split in two
        c = packing[1]
        if c <= 0 or c >= len(reqs[-1]):
            return skip()
        segs = list(reqs[:-1]) + [reqs[-1][:c], reqs[-1][c:]]
    else:
        c = packing[1]
        if c <= 0 or c >= len(stream):
            return skip()
        segs = [stream[:c], stream[c:]]
    with concrete():
        env = envkit.new_env()
        xk = envkit.Executor(scen.FLAGS[{'forward': 'forward', 'web': 'web2', 'reverse': 'all'}[role]], env)
        cs = xk.accept('client')

        def factory(addr):
            if addr[0] == 'same.example':
                return env.sock('up:%s:%d' % (addr[0], addr[1]))       # two upstreams on one host: told apart by port
            return env.sock('up:' + addr[0])
        env.upstream_factory = factory
    ex = xk.ex
    seen = {}            # upstream socket name -> [cursor into its received bytes, complete requests parsed so far, answered count]
    si = 0
    rcur = [0, 0]          # cursor into the client's received bytes, complete responses seen
    sent_bytes = [0]

    def poll(us):
        st = seen.setdefault(us.name, [0, [], 0])
        if len(us.out) > st[0]:
            got, rest = _split_requests(us.out[st[0]:])     # only the bytes that arrived since the last complete request
            if got:
                st[1].extend(got)
                st[0] = len(us.out) - len(rest)
        return st
    for step in range(4 * n + 6):
        # the client sends its next segment either right away or only after the pending answers arrived (order bit)
        ups = [s for a, s in env.connects if not isinstance(s, BaseException)]
        pending_answer = False
        for us in ups:
            st = poll(us)
            if len(st[1]) > st[2]:
                pending_answer = True
        # a waiting client sends on only when every request it has completely sent has been answered
        if order == 1 and len(cs.out) > rcur[0]:
            rgot, rrest = _split_responses(cs.out[rcur[0]:])
            rcur[1] += len(rgot)
            rcur[0] = len(cs.out) - len(rrest)
        sent_complete = 0
        acc = 0
        for r_ in reqs:
            acc += len(r_)
            if acc <= sent_bytes[0]:
                sent_complete += 1
        if si < len(segs) and (order == 0 or (not pending_answer and rcur[1] >= sent_complete)):
            cs.inq.append(segs[si])
            sent_bytes[0] += len(segs[si])
            si += 1
        for us in ups:
            st = seen[us.name]
            while st[2] < len(st[1]) and not us.closed:
                m = st[1][st[2]]
                tag = us.name[3:].encode() + b'#' + m['start'][1]
                us.inq.append(scen.response(tag, b'A:' + m['start'][1]))
                st[2] += 1
        e = xk.step()
        if e is not None:
            return fail('exception escaped the executor loop', exc=repr(e), step=step)
        if cs.closed:
            break
    unrouted = role == 'web' and b'none' in origins
    if cs.closed and not close_last and not unrouted:
        return fail('proxy closed the persistent connection although neither side asked to', out=repr(cs.out[-80:]))
    # responses seen by the client
    resp = []
    data = cs.out
    while len(data) > 0:
        try:
            m = refhttp.read_message(data, True)
        except refhttp.Malformed as e:
            return fail('client received a malformed/partial response stream', why=str(e), tail=repr(data[:80]))
        resp.append(m)
        data = m['remainder']
    if len(resp) != n:
        return fail('client did not receive exactly one response per request (got %d of %d)' % (len(resp), n), out=repr(cs.out[:200]))
    ups = [s for a, s in env.connects if not isinstance(s, BaseException)]
    if role == 'web':
        for i in range(n):
            if origins[i] == b'none':
                # a request naming no route is answered 404 (and the connection closed), as for a first request
                if resp[i]['start'][1] != b'404':
                    return fail('request %d names no route but was not answered 404' % i, start=repr(resp[i]['start']))
                continue
            xm = [v for k, nm, v in resp[i]['headers'] if k == b'x-method']
            if xm != [b'POST' if bodies[i] else b'GET']:
                return fail('request %d reached its route with a different method (request bytes lost or shifted)' % i, method=repr(xm))
            want = origins[i] + b':/' + origins[i] + b'/r%d' % i + B(ds[i])
            if resp[i]['body'] != want:
                return fail('response %d is not the one of request %d' % (i, i), got=repr(resp[i]['body']), want=repr(want))
        return ok()
    # forward / reverse: each upstream received exactly the requests naming it, in order, intact
    for i in range(n):
        origin = origins[i]
        if role == 'forward':
            want_path = b'/r%d' % i + B(ds[i])
        else:
            want_path = {b'up1.example': b'/get', b'literal': b'/lit', b'same.example:9001': b'/one', b'same.example:9002': b'/two'}.get(origin, b'/v1')
        body = resp[i]['body']
        xo = [v for k, nm, v in resp[i]['headers'] if k == b'x-origin']
        if len(xo) != 1 or not xo[0].startswith(origin + b'#'):
            return fail('response %d was not produced by the origin its request names' % i, x_origin=repr(xo), want=repr(origin))
        if body != b'A:' + want_path:
            return fail('response %d answers a different request' % i, body=repr(body), want=repr(b'A:' + want_path))
    for us in ups:
        got, rest = _split_requests(us.out)
        if rest != b'':
            return fail('an upstream received a partial / corrupted request', rest=repr(rest[:80]), upstream=us.name)
        mine = [i for i in range(n) if b'up:' + origins[i] == us.name.encode()]
        if len(got) != len(mine):
            return fail('an upstream received a different number of requests than name it', upstream=us.name, got=len(got), want=len(mine))
        for m, i in zip(got, mine):
            if m['start'][0] != (b'POST' if bodies[i] else b'GET'):
                return fail('request %d reached the upstream with a different method (request bytes lost or shifted)' % i, got=repr(m['start'][0]))
            if bodies[i] and m['body'] != b'B%d' % i:
                return fail('request body not intact', got=repr(m['body']))
            if role == 'reverse':
                xi = [v for k, nm, v in m['headers'] if k == b'x-i']
                if xi != [(b'%d' % i) + B(ds[i])]:
                    return fail('requests reached the upstream out of order / altered', xi=repr(xi), i=i)
    return ok()


def _first_response(data):
    try:
        m = refhttp.read_message(data, True)
    except refhttp.Malformed:
        return None
    return m


def pooled(d0: int, d1: int, d2: int, late: int) -> bool:
    """
    pre: 97 <= d0 <= 122 and 97 <= d1 <= 122 and 97 <= d2 <= 122
    pre: 0 <= late <= 1
    post: _
    """
    begin()
    # --enable-conn-pool: client A sends two requests on one connection and goes away while the answer to the second one is still
    # outstanding; client B then asks the same origin. Whatever connection B's request travels on, B receives exactly the answer
    # to ITS request (never the late answer to A's request).
    origin = b'o1.example'
    nfollow = CFG['nfollow']        # requests A sends after its first one (0: A leaves after one complete exchange)
    pa = [b'/a' + B(d0), b'/b' + B(d1)]
    pb = b'/c' + B(d2)

    def req(pth):
        return b'GET http://' + origin + pth + b' HTTP/1.1\r\nHost: ' + origin + b'\r\n\r\n'
    with concrete():
        env = envkit.new_env()
        xk = envkit.Executor(scen.FLAGS['forward_pool'], env)
        env.upstream_factory = lambda addr: env.sock('up:' + addr[0])
        ca = xk.accept('clientA')
    answered = {}        # id(upstream socket) -> number of complete requests answered

    def ups():
        return [s_ for a, s_ in env.connects if not isinstance(s_, BaseException)]

    def answer(us, hold=0):
        """Let the upstream answer every request it has completely received, except the last `hold` ones."""
        got, rest = _split_requests(us.out)
        k = answered.get(id(us), 0)
        while k < len(got) - hold and not us.closed:
            us.inq.append(scen.response(b'o1#' + got[k]['start'][1], b'A:' + got[k]['start'][1]))
            k += 1
        answered[id(us)] = k

    def steps(n):
        for _ in range(n):
            e = xk.step()
            if e is not None:
                return e
        return None
    ca.inq.append(req(pa[0]))
    for _ in range(6):
        for us in ups():
            answer(us)
        e = steps(1)
        if e is not None:
            return fail('exception escaped the executor loop', exc=repr(e))
    m = _first_response(ca.out)
    if m is None or m['body'] != b'A:' + pa[0]:
        return fail('client A did not receive the answer to its first request', out=repr(ca.out[:80]))
    old = ups()
    if nfollow:
        ca.inq.append(req(pa[1]))
        e = steps(4)
        if e is not None:
            return fail('exception escaped the executor loop', exc=repr(e))
    # A goes away; its second request (if any) is unanswered so far
    ca.inq.append(b'')
    e = steps(3)
    if e is not None:
        return fail('exception escaped the executor loop', exc=repr(e))
    if late == 0:
        for us in old:
            answer(us)            # the late answer arrives while nobody owns the connection
        e = steps(2)
        if e is not None:
            return fail('exception escaped the executor loop', exc=repr(e))
    cb = xk.accept('clientB', addr=('10.0.0.10', 5001))
    cb.inq.append(req(pb))
    e = steps(3)
    if e is not None:
        return fail('exception escaped the executor loop', exc=repr(e))
    for _ in range(6):
        for us in ups():
            answer(us)            # answers in the order the requests were received on that connection
        e = steps(1)
        if e is not None:
            return fail('exception escaped the executor loop', exc=repr(e))
    m = _first_response(cb.out)
    if m is None:
        if cb.closed and cb.out == b'':
            return fail('client B was dropped without an answer')
        return fail('client B did not receive a complete response', out=repr(cb.out[:80]))
    if m['body'] != b'A:' + pb:
        return fail('client B received the answer to another client\'s request', got=repr(m['body']), want=repr(b'A:' + pb))
    if m['remainder'] != b'':
        return fail('client B received more than one response to one request', extra=repr(m['remainder'][:80]))
    return ok()


def selftest():
    return refhttp.selftest()


def obligations(tier):
    obs = []
    T = 600

    def add(name, **cfg):
        obs.append({'name': name, 'fn': 'persistent', 'cfg': cfg, 'timeout': T})
    for role, same, other in (('forward', 'o1.example', 'o2.example'), ('web', 'hello', 'bye'), ('reverse', 'up1.example', 'up2.example')):
        for n in (1, 2) if tier == 'quick' else (1, 2, 3):
            olists = [[same] * n]
            if n >= 2 and other != same:
                olists.append([same] + [other] * (n - 1))
            for ol in olists:
                tag = 'same' if len(set(ol)) == 1 else 'diff'
                for packing in ('separate', 'together'):
                    if n == 1 and packing == 'together':
                        continue
                    add('%s.n%d.%s.%s' % (role, n, tag, packing), role=role, n=n, origins=ol, packing=packing)
                if n == 2:
                    l2 = len(_req(role, 1, ol[1].encode(), 97, True))
                    for c in (4, l2 - 3, l2 - 1):
                        add('%s.n2.%s.cut_last%d' % (role, tag, c), role=role, n=2, origins=ol, packing=['cut_last', c], bodies=[False, True])
                    add('%s.n2.%s.bodies.separate' % (role, tag), role=role, n=2, origins=ol, packing='separate', bodies=[True, True])
                    add('%s.n2.%s.bodies.together' % (role, tag), role=role, n=2, origins=ol, packing='together', bodies=[True, False])
                    if tag == 'same':
                        # the first request's body is split over two reads and the read carrying its tail also carries the second request
                        l1b = len(_req(role, 0, ol[0].encode(), 97, True))
                        add('%s.n2.%s.bodycut' % (role, tag), role=role, n=2, origins=ol, packing=['cut', l1b - 1], bodies=[True, False])
                        # split anywhere: cut positions around the boundary between the two requests and inside each
                        l1 = len(_req(role, 0, ol[0].encode(), 97, False))
                        cuts = [5, l1 - 2, l1 - 1, l1 + 1, l1 + 3, l1 + 20] if tier == 'quick' else list(range(1, 2 * l1, 3))
                        for c in cuts:
                            add('%s.n2.%s.cut%d' % (role, tag, c), role=role, n=2, origins=ol, packing=['cut', c])
    # the last request announces "Connection: close": it is still answered (the connection may close afterwards)
    for role, same in (('forward', 'o1.example'), ('web', 'hello'), ('reverse', 'up1.example')):
        for n in (1, 2):
            for packing in ('separate', 'together'):
                if n == 1 and packing == 'together':
                    continue
                add('%s.n%d.close_last.%s' % (role, n, packing), role=role, n=n, origins=[same] * n, packing=packing, close_last=True)
    # reverse proxy, two routes to the SAME host on different ports; the client waits for each answer (so that the open finding about
    # an outstanding response on a replaced upstream connection is not involved): each request is answered by the port its route names
    add('reverse.n2.same_host_other_port.client_waits.separate', role='reverse', n=2, origins=['same.example:9001', 'same.example:9002'],
        packing='separate', waits=True)
    add('web.n2.unrouted.separate', role='web', n=2, origins=['hello', 'none'], packing='separate')
    add('web.n2.unrouted.together', role='web', n=2, origins=['hello', 'none'], packing='together')
    for ol, tag in ((['up1.example', 'literal'], 'upstream_then_literal'), (['literal', 'up1.example'], 'literal_then_upstream'),
                    (['up1.example', 'literal', 'up1.example'], 'upstream_literal_upstream')):
        add('reverse.n%d.%s.separate' % (len(ol), tag), role='reverse', n=len(ol), origins=ol, packing='separate')
        add('reverse.n%d.%s_client_waits.separate' % (len(ol), tag.replace('upstream_', 'up_')), role='reverse', n=len(ol), origins=ol, packing='separate', waits=True)
    # connection pool: a client leaves with 0 or 1 answers outstanding, the next client asks the same origin
    for nf in (0, 1):
        obs.append({'name': 'pooled.followups%d' % nf, 'fn': 'pooled', 'cfg': {'nfollow': nf}, 'timeout': T, 'group': 'pooled'})
    return obs


META = {
    'bounds': {
        'quick': '1-2 (thorough 3) requests on one connection, in three roles (forward proxy, web-server route, reverse proxy), to the same or to '
                 'different origins/routes (web: two independent route plugins, and a follow-up naming no route), with and without bodies, the last '
                 'request optionally announcing Connection: close; packing: one request per segment, all in one segment, split at 6 positions '
                 'around the request boundary; upstream stubs answer every request they have completely received with a response naming the '
                 'origin and the request; a symbolic bit decides whether the client waits for answers before sending on; one symbolic path '
                 'byte per request; real executor loop; --enable-conn-pool: a client that leaves with 0 or 1 answers outstanding followed by '
                 'a second client asking the same origin (late answer before or after the second client\'s request: symbolic bit)',
        'thorough': '3 requests, cuts at every third position',
    },
    'outside': 'more than 3 requests, Connection: close on other than the last request, HTTP/1.0 clients, responses larger than one segment, TLS',
    'stubs': ['FakeSocket/connect stub per origin/FakeSelector(auto)/FakeLoop', 'upstream stub parses what it received with the reference '
              'reader and answers each complete request once'],
}
