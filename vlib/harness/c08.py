"""C08 — with proxy authentication on, unauthenticated requests reach nothing.

Real code: AuthPlugin.before_upstream_connection, HttpProxyPlugin.__init__/on_request_complete/on_client_data/connect_upstream,
FlagParser.initialize (plugin order, auth_code), Plugins.load, ProxyAuthenticationFailed.response, HttpParser.build.
"""
import base64

from proxy.common.flag import FlagParser
from proxy.http.proxy import HttpProxyBasePlugin
from proxy.http.responses import PROXY_AUTH_FAILED_RESPONSE_PKT

from vlib import envkit, refhttp
from vlib.hk import CFG, begin, ok, fail, skip, B, run, cat, concrete

envkit.install()
HOOKS = []


class RecordingPlugin(HttpProxyBasePlugin):
    """User plugin configured AFTER auth: must never see a request of an unauthenticated connection."""

    def before_upstream_connection(self, request):
        HOOKS.append('before_upstream_connection')
        return request

    def handle_client_request(self, request):
        HOOKS.append('handle_client_request')
        return request

    def handle_client_data(self, raw):
        HOOKS.append('handle_client_data')
        return raw

    def resolve_dns(self, host, port):
        HOOKS.append('resolve_dns')
        return None, None


CREDS = ['u:p', 'user:pa:ss', 'x:']
FL = {}
for _i, _c in enumerate(CREDS):
    FL[(_i, False)] = FlagParser.initialize(['--threadless', '--basic-auth', _c])
    FL[(_i, True)] = FlagParser.initialize(['--threadless', '--basic-auth', _c], plugins=[RecordingPlugin])
# --basic-auth together with an operator-chosen --disable-headers list
FL_DH = FlagParser.initialize(['--threadless', '--basic-auth', CREDS[0], '--disable-headers', 'x-drop'], plugins=[RecordingPlugin])
AUTH_FAILED = PROXY_AUTH_FAILED_RESPONSE_PKT.tobytes()
WS = (32, 9, 10, 11, 12, 13)


def _tokens(v):
    """Independent whitespace tokeniser (ASCII whitespace as bytes.split() defines it)."""
    toks = []
    cur = b''
    for c in v:
        if c == 32 or (9 <= c <= 13):
            if len(cur) > 0:
                toks.append(cur)
                cur = b''
        else:
            cur = cur + B(c)
    if len(cur) > 0:
        toks.append(cur)
    return toks


def _lower(bs):
    out = b''
    for c in bs:
        out = out + B(c + 32 if 65 <= c <= 90 else c)
    return out


NAME = b'Proxy-Authorization'


def auth(x0: int, x1: int, x2: int, k0: int, k1: int) -> bool:
    """
    pre: 0 <= x0 < 256 and 0 <= x1 < 256 and 0 <= x2 < 256
    pre: 0 <= k0 <= 1 and 0 <= k1 <= 1
    post: _
    """
    begin()
    ci = CFG['cred']
    rec = CFG['rec']
    method = CFG['method']
    shape = CFG['shape']
    flags = FL_DH if CFG.get('dh') else FL[(ci, rec)]
    token = base64.b64encode(CREDS[ci].encode())
    good = b'Basic ' + token
    xs = [x0, x1, x2]
    # header value with symbolic edits
    if shape == 'absent':
        value = None
    elif shape == 'replace':
        pos = CFG['pos']
        vl = list(good)
        for j, p in enumerate(pos):
            vl[p] = xs[j]
        value = bytes(vl) if False else B(*vl)
    elif shape == 'append':
        value = good + B(*xs[:CFG['n']])
    elif shape == 'prepend':
        value = B(*xs[:CFG['n']]) + good
    elif shape == 'insert':
        p = CFG['at']
        value = good[:p] + B(*xs[:CFG['n']]) + good[p:]
    elif shape == 'truncate':
        value = good[:CFG['keep']] + B(*xs[:CFG['n']])
    elif shape == 'scheme':
        value = CFG['scheme'].encode() + B(x0) + token
    else:
        raise ValueError(shape)
    if value is not None:
        for c in value:
            if c == 13 or c == 10 or c == 0:
                return skip()        # CR / LF / NUL would end or corrupt the header line itself
    # header name casing: two symbolic case bits applied to 'P' and 'A'
    name = NAME
    if k0:
        name = b'p' + name[1:]
    if k1:
        name = name[:6] + b'a' + name[7:]
    if method == 'CONNECT':
        head = b'CONNECT h:443 HTTP/1.1\r\n'
    else:
        head = method.encode() + b' http://h/x HTTP/1.1\r\n'
    req = head + ((name + b': ' + value + b'\r\n') if value is not None else b'') + b'\r\n'
    # reference decision
    authorised = False
    if value is not None:
        toks = _tokens(value)
        authorised = len(toks) == 2 and _lower(toks[0]) == b'basic' and toks[1] == token
    del HOOKS[:]
    with concrete():
        env = envkit.new_env()
        h, cs = envkit.make_handler(flags, env)
    cs.inq.append(req)
    try:
        td = run(h.handle_events([cs.fd], []))
    except Exception as e:
        return fail('exception left handle_events', exc=repr(e))
    out = cat(h.work.buffer)
    closing = bool(td) or h.must_flush_before_shutdown
    if not authorised:
        if out != AUTH_FAILED:
            return fail('unauthenticated request not answered with the 407 packet', out=repr(out[:60]), value=repr(value))
        if not closing:
            return fail('connection kept open after 407')
        if env.connects:
            return fail('outbound connection attempted for an unauthenticated request', connects=repr(env.connects), value=repr(value))
        if HOOKS:
            return fail('a later plugin saw a request of an unauthenticated connection', hooks=repr(HOOKS))
        # more bytes arrive while the 407 is still queued (slow peer: not writable yet); what the proxy asks the selector for decides
        # whether they are read at all
        cs.inq.append(b'GET http://h/z HTTP/1.1\r\n' + name + b': ' + good + b'\r\n\r\n')
        try:
            ev = run(h.get_events())
            r = [cs.fd] if (ev.get(cs.fd, 0) & 1) else []
            run(h.handle_events(r, []))
        except Exception as e:
            return fail('exception on bytes arriving after the 407', exc=repr(e))
        if HOOKS or env.connects:
            return fail('bytes arriving after the 407 reached a later plugin or an upstream', hooks=repr(HOOKS), connects=repr(env.connects))
        if cat(h.work.buffer) != AUTH_FAILED:
            return fail('pending 407 altered by bytes arriving after it', out=repr(cat(h.work.buffer)[:80]))
        return ok()
    if closing:
        return fail('correct credentials rejected', out=repr(out[:60]), value=repr(value))
    if len(env.connects) != 1:
        return fail('authorised request did not open exactly one upstream connection')
    if rec and 'before_upstream_connection' not in HOOKS:
        return fail('user plugin after auth was not consulted for an authorised request')
    us = env.connects[0][1]
    if method != 'CONNECT' and not CFG.get('second'):
        if b'uthorization' in envkit.pending(h.plugin.upstream) or b'UTHORIZATION' in envkit.pending(h.plugin.upstream):
            return fail('credentials forwarded to the origin (first request)')
    elif method != 'CONNECT':
        sent = envkit.pending(h.plugin.upstream)
        try:
            m = refhttp.read_message(sent, False)
        except refhttp.Malformed as e:
            return fail('forwarded request malformed', why=str(e))
        for k, n, v in m['headers']:
            if k == b'proxy-authorization':
                return fail('credentials forwarded to the origin (first request)')
        # second request on the kept-alive connection, again with credentials
        if CFG.get('second_connect'):
            # a CONNECT as follow-up request of a plain connection is relayed to the origin like any other request: without credentials
            req2 = b'CONNECT h:443 HTTP/1.1\r\n' + name + b': ' + value + b'\r\n\r\n'
        else:
            req2 = b'GET http://h/y HTTP/1.1\r\n' + name + b': ' + value + b'\r\n\r\n'
        cs.inq.append(req2)
        try:
            td = run(h.handle_events([cs.fd], []))
        except Exception as e:
            return fail('exception on the second request', exc=repr(e))
        sent2 = envkit.pending(h.plugin.upstream)[len(sent):]
        try:
            m2 = refhttp.read_message(sent2, False)
        except refhttp.Malformed as e:
            return fail('second forwarded request malformed', why=str(e), sent2=repr(sent2[:80]))
        if not CFG.get('second_connect') and m2['start'][1] != b'/y':
            return fail('second request not forwarded', start=repr(m2['start']))
        for k, n, v in m2['headers']:
            if k == b'proxy-authorization':
                return fail('credentials forwarded to the origin (second request of the connection)')
    else:
        if envkit.pending(h.plugin.upstream) != b'':
            return fail('bytes sent upstream before the tunnel carries client data')
    return ok()


def obligations(tier):
    obs = []
    T = 300

    def add(name, cfg, **kw):
        c = {'cred': 0, 'rec': True, 'method': 'GET'}
        c.update(cfg)
        obs.append({'name': name, 'fn': 'auth', 'cfg': c, 'timeout': T})
    for method in ('GET', 'POST', 'CONNECT', 'DELETE'):
        add('auth.absent.%s' % method, {'shape': 'absent', 'method': method})
        add('auth.absent.%s.norec' % method, {'shape': 'absent', 'method': method, 'rec': False})
    glen = 6 + 4      # 'Basic ' + 'dTpw'
    pairs = [(i, j) for i in range(glen) for j in range(i + 1, glen)]
    if tier == 'quick':
        pairs = [(0, 1), (0, 5), (4, 5), (5, 6), (4, 9), (6, 7), (8, 9), (0, 9), (2, 6)]
    for (i, j) in pairs:
        add('auth.replace.%d_%d' % (i, j), {'shape': 'replace', 'pos': [i, j], 'second': (i, j) in ((0, 1), (8, 9))})
    for i in range(glen):
        add('auth.replace.%d.connect' % i, {'shape': 'replace', 'pos': [i], 'method': 'CONNECT'})
    for n in (1, 2):
        add('auth.append.%d' % n, {'shape': 'append', 'n': n, 'second': n == 1})
        add('auth.prepend.%d' % n, {'shape': 'prepend', 'n': n})
        for at in (5, 6, 8):
            add('auth.insert%d.at%d' % (n, at), {'shape': 'insert', 'n': n, 'at': at})
    for keep in (0, 5, 6, 8, 9):
        add('auth.truncate.keep%d' % keep, {'shape': 'truncate', 'keep': keep, 'n': 1})
    for sch in ('Bearer', 'Digest', 'basic', 'BASIC', 'Basi', 'Basicc'):
        add('auth.scheme.%s' % sch, {'shape': 'scheme', 'scheme': sch})
    add('auth.replace.0_1.second_connect', {'shape': 'replace', 'pos': [0, 1], 'second': True, 'second_connect': True})
    add('auth.append.1.second_connect', {'shape': 'append', 'n': 1, 'second': True, 'second_connect': True})
    add('auth.replace.0_1.disable_headers', {'shape': 'replace', 'pos': [0, 1], 'second': True, 'dh': True})
    add('auth.append.1.disable_headers', {'shape': 'append', 'n': 1, 'second': True, 'dh': True})
    for ci in (1, 2):
        add('auth.cred%d.replace' % ci, {'shape': 'replace', 'pos': [0, 7], 'cred': ci})
        add('auth.cred%d.append' % ci, {'shape': 'append', 'n': 1, 'cred': ci})
        add('auth.cred%d.absent' % ci, {'shape': 'absent', 'cred': ci})
    return obs


META = {
    'bounds': {
        'quick': '3 configured credentials; methods GET/POST/CONNECT/DELETE; Proxy-Authorization absent, or the correct value "Basic <b64>" '
                 'with: 2 arbitrary bytes replacing 9 position pairs (1 byte at every position for CONNECT), 1-2 arbitrary bytes appended / '
                 'prepended / inserted at 3 places, truncations + 1 arbitrary byte, 6 other scheme tokens with an arbitrary separator byte; '
                 'two symbolic case bits in the header name; with a recording user plugin configured after auth; authorised connections also '
                 'send a second keep-alive request (also with an operator-chosen --disable-headers list); rejected connections receive more '
                 'bytes while the 407 is still queued',
        'thorough': 'all 45 position pairs',
    },
    'outside': 'duplicated Proxy-Authorization lines (the parser keeps the last one); more than 3 edited bytes at once; segmentation of the '
               'request (C03); TLS-intercepted connections',
    'stubs': ['FakeSocket client; connect stub records every outbound connection attempt', 'RecordingPlugin is harness code loaded through the '
              'real FlagParser/Plugins.load path'],
}
