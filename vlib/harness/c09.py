"""C09 — plugins run in configured order with the documented chaining semantics.

Real code: HttpProxyPlugin.__init__/on_request_complete/on_client_data/read_from_descriptors/on_client_connection_close,
HttpProtocolHandler.handle_data/shutdown, Plugins.load, FlagParser.initialize, HttpRequestRejected.response.

This is a finite behaviour table explored by forking: the behaviour of every (plugin, hook) is a solver variable made
concrete per path by an equality ladder; the solver's role is path feasibility.
"""
import errno

from proxy.common.flag import FlagParser
from proxy.http.exception import HttpRequestRejected
from proxy.http.proxy import HttpProxyBasePlugin
from proxy.http.responses import PROXY_AUTH_FAILED_RESPONSE_PKT, PROXY_TUNNEL_ESTABLISHED_RESPONSE_PKT

from vlib import envkit, refhttp, scen
from vlib.hk import CFG, begin, ok, fail, skip, B, run, cat, concrete

envkit.install()
LOG = []
BEH = {}        # (plugin index, hook) -> behaviour: 0 pass, 1 modify, 2 drop (None), 3 reject
PASS, MODIFY, DROP, REJECT, REPLACE = 0, 1, 2, 3, 4      # REPLACE: like MODIFY but returns a NEW request object


def _mk(idx):
    class P(HttpProxyBasePlugin):
        I = idx

        def _seen(self, request):
            return sorted(k.decode() for k in (request.headers or {}) if k.startswith(b'x-mark'))

        def before_upstream_connection(self, request):
            LOG.append(('bu', self.I, tuple(self._seen(request))))
            b = BEH.get((self.I, 'bu'), PASS)
            if b == REJECT:
                raise HttpRequestRejected(status_code=403 + self.I, reason=b'No', body=b'rej-bu-%d' % self.I)
            if b == DROP:
                return None
            if b == MODIFY:
                request.add_header(b'X-Mark-bu%d' % self.I, b'1')
            return request

        def handle_client_request(self, request):
            LOG.append(('hcr', self.I, tuple(self._seen(request))))
            b = BEH.get((self.I, 'hcr'), PASS)
            if b == REJECT:
                raise HttpRequestRejected(status_code=413 + self.I, reason=b'No', body=b'rej-hcr-%d' % self.I)
            if b == DROP:
                return None
            if b == MODIFY:
                request.add_header(b'X-Mark-hcr%d' % self.I, b'1')
            if b == REPLACE:
                from proxy.http.parser import HttpParser
                fresh = HttpParser.request(request.build(for_proxy=request.host is not None))
                fresh.add_header(b'X-Mark-hcr%d' % self.I, b'1')
                return fresh
            return request

        def handle_upstream_chunk(self, chunk):
            LOG.append(('huc', self.I, chunk.tobytes()))
            b = BEH.get((self.I, 'huc'), PASS)
            if b == DROP:
                return None
            if b == MODIFY:
                return memoryview(chunk.tobytes() + (b'<%d>' % self.I))
            return chunk

        def on_access_log(self, context):
            LOG.append(('log', self.I, context.get('m', ())))
            b = BEH.get((self.I, 'log'), PASS)
            if b == DROP:
                return None
            if b == MODIFY:
                context = dict(context)
                context['m'] = tuple(context.get('m', ())) + (self.I,)
            return context

        def on_upstream_connection_close(self):
            LOG.append(('close', self.I))
    P.__name__ = P.__qualname__ = 'P%d' % idx
    return P


PLUGS = [_mk(i) for i in range(3)]
FL = {
    (1, False): FlagParser.initialize(['--threadless'], plugins=PLUGS[:1]),
    (2, False): FlagParser.initialize(['--threadless'], plugins=PLUGS[:2]),
    (3, False): FlagParser.initialize(['--threadless'], plugins=PLUGS[:3]),
    (2, True): FlagParser.initialize(['--threadless', '--basic-auth', 'u:p'], plugins=PLUGS[:2]),
    ('pool', False): FlagParser.initialize(['--threadless', '--enable-conn-pool'], plugins=PLUGS[:2]),
    ('rev', False): FlagParser.initialize(['--threadless'], plugins=[PLUGS[1], PLUGS[0]]),
}


def _lad(v, n):
    for k in range(n):
        if v == k:
            return k
    return None


def chain(a0: int, a1: int, a2: int, b0: int, b1: int, b2: int) -> bool:
    """
    pre: 0 <= a0 <= 3 and 0 <= a1 <= 3 and 0 <= a2 <= 3
    pre: 0 <= b0 <= 3 and 0 <= b1 <= 3 and 0 <= b2 <= 3
    post: _
    """
    begin()
    n = CFG['n']
    auth = CFG.get('auth')
    order = list(range(n))
    key = (n, bool(auth))
    if CFG.get('reversed'):
        key = ('rev', False)
        order = [1, 0]
    A = [_lad(a0, 4), _lad(a1, 4), _lad(a2, 4)]
    Bh = [_lad(b0, 4), _lad(b1, 4), _lad(b2, 4)]
    BEH.clear()
    for i in range(n):
        BEH[(i, 'bu')] = A[i]
        BEH[(i, 'hcr')] = Bh[i]
    for i in range(n, 3):
        if A[i] != 0 or Bh[i] != 0:
            return skip()
    del LOG[:]
    with concrete():
        env = envkit.new_env()
        h, cs = envkit.make_handler(FL[key], env)
    cred = b'Proxy-Authorization: Basic dTpw\r\n' if auth == 'good' else (b'Proxy-Authorization: Basic bad\r\n' if auth == 'bad' else b'')
    tunnel = bool(CFG.get('connect'))
    if tunnel:
        cs.inq.append(b'CONNECT o.example:443 HTTP/1.1\r\nHost: o.example:443\r\n' + cred + b'\r\n')
    else:
        cs.inq.append(b'GET http://o.example/x HTTP/1.1\r\nHost: o.example\r\n' + cred + b'\r\n')
    try:
        td = run(h.handle_events([cs.fd], []))
    except Exception as e:
        return fail('exception left handle_events', exc=repr(e))
    closing = bool(td) or h.must_flush_before_shutdown
    out = cat(h.work.buffer)
    # ---- reference fold over the documented semantics --------------------------------------
    exp = []
    marks = []
    result = 'forward'
    reject_body = None
    if auth == 'bad' or (auth is True):
        result = 'auth-reject'
    else:
        connected = True
        for i in order:
            exp.append(('bu', i, tuple(sorted(marks))))
            b = BEH[(i, 'bu')]
            if b == REJECT:
                result, reject_body = 'reject', b'rej-bu-%d' % i
                break
            if b == DROP:
                connected = False
                break
            if b == MODIFY:
                marks.append('x-mark-bu%d' % i)
        if result != 'reject':
            for i in order:
                exp.append(('hcr', i, tuple(sorted(marks))))
                b = BEH[(i, 'hcr')]
                if b == REJECT:
                    result, reject_body = 'reject-after-connect' if connected else 'reject', b'rej-hcr-%d' % i
                    break
                if b == DROP:
                    result = 'dropped'
                    break
                if b == MODIFY:
                    marks.append('x-mark-hcr%d' % i)
            if result == 'forward' and not connected:
                result = 'no-upstream'
    got = [x for x in LOG if x[0] in ('bu', 'hcr')]
    if got != exp:
        return fail('hook call order / data flow differs from the documented chaining', got=repr(got), want=repr(exp))
    nconn = len([1 for a, s in env.connects])
    upstream = h.plugin.upstream if h.plugin is not None else None
    sent = envkit.pending(upstream) if upstream is not None else b''
    if result == 'auth-reject':
        if out != PROXY_AUTH_FAILED_RESPONSE_PKT.tobytes() or not closing or nconn or LOG:
            return fail('unauthenticated request reached a plugin or upstream', log=repr(LOG), nconn=nconn)
        return ok()
    if result in ('reject', 'reject-after-connect'):
        if not closing:
            return fail('rejected request: connection not closed')
        try:
            m = refhttp.read_message(out, True)
        except refhttp.Malformed as e:
            return fail('rejection response malformed', why=str(e), out=repr(out[:80]))
        if m['body'] != reject_body or m['remainder'] != b'':
            return fail('response is not exactly the one the rejecting plugin chose', body=repr(m['body']), want=repr(reject_body),
                        out=repr(out[:120]))
        if result == 'reject' and nconn:
            return fail('upstream contacted although a plugin rejected before the connection', nconn=nconn)
        if sent != b'':
            return fail('request bytes forwarded although a plugin rejected the request', sent=repr(sent[:60]))
        return ok()
    if closing:
        return fail('connection closed although no plugin rejected', out=repr(out[:60]))
    want_conn = 0 if result == 'no-upstream' or (result == 'dropped' and not connected) else 1
    if nconn != want_conn:
        return fail('number of upstream connections differs', nconn=nconn, want=want_conn, result=result)
    if result in ('dropped', 'no-upstream'):
        if sent != b'':
            return fail('request forwarded although the chain said "no request"', sent=repr(sent[:60]))
        if out != b'':
            return fail('the core answered a request the chain had dropped', out=repr(out[:80]))
        return ok()
    if tunnel:
        if sent != b'':
            return fail('CONNECT request forwarded into the tunnel', sent=repr(sent[:60]))
        if out != PROXY_TUNNEL_ESTABLISHED_RESPONSE_PKT.tobytes():
            return fail('tunnel not acknowledged with exactly the 200 Connection established response', out=repr(out[:80]))
        return ok()
    try:
        m = refhttp.read_message(sent, False)
    except refhttp.Malformed as e:
        return fail('forwarded request malformed', why=str(e))
    fm = sorted(k.decode() for k, nme, v in m['headers'] if k.startswith(b'x-mark'))
    if fm != sorted(marks):
        return fail('forwarded request does not carry exactly the modifications of the chain', got=repr(fm), want=repr(sorted(marks)))
    return ok()


def chain2(a0: int, a1: int) -> bool:
    """
    pre: 0 <= a0 <= 4 and 0 <= a1 <= 4
    post: _
    """
    begin()
    # handle_client_request chain on a FOLLOW-UP request of a kept-alive connection
    A = [_lad(a0, 5), _lad(a1, 5)]
    BEH.clear()
    del LOG[:]
    with concrete():
        env = envkit.new_env()
        h, cs = envkit.make_handler(FL[(2, False)], env)
        cs.inq.append(b'GET http://o.example/first HTTP/1.1\r\nHost: o.example\r\n\r\n')
        if run(h.handle_events([cs.fd], [])):
            return fail('teardown on the first request')
    sent1 = len(envkit.pending(h.plugin.upstream))
    del LOG[:]
    for i in range(2):
        BEH[(i, 'hcr')] = A[i]
    cs.inq.append(b'GET http://o.example/second HTTP/1.1\r\nHost: o.example\r\n\r\n')
    try:
        td = run(h.handle_events([cs.fd], []))
    except Exception as e:
        return fail('exception left handle_events on the follow-up request', exc=repr(e))
    closing = bool(td) or h.must_flush_before_shutdown
    exp = []
    marks = []
    result = 'forward'
    for i in range(2):
        exp.append(('hcr', i, tuple(sorted(marks))))
        b = A[i]
        if b == REJECT:
            result = 'reject'
            break
        if b == DROP:
            result = 'dropped'
            break
        if b in (MODIFY, REPLACE):
            marks.append('x-mark-hcr%d' % i)
    got = [x for x in LOG if x[0] == 'hcr']
    if got != exp:
        return fail('follow-up request: hook order / data flow differs from the documented chaining', got=repr(got), want=repr(exp))
    sent = envkit.pending(h.plugin.upstream)[sent1:]
    if result == 'reject':
        if not closing:
            return fail('follow-up request rejected by a plugin but the connection is kept')
        if sent != b'':
            return fail('rejected follow-up request was forwarded')
        return ok()
    if closing:
        return fail('connection closed although no plugin rejected the follow-up request')
    if result == 'dropped':
        if sent != b'':
            return fail('dropped follow-up request was forwarded', sent=repr(sent[:60]))
    else:
        try:
            m = refhttp.read_message(sent, False)
        except refhttp.Malformed as e:
            return fail('forwarded follow-up request malformed', why=str(e), sent=repr(sent[:80]))
        if m['start'][1] != b'/second':
            return fail('follow-up request not forwarded', start=repr(m['start']))
        fm = sorted(k.decode() for k, nme, v in m['headers'] if k.startswith(b'x-mark'))
        if fm != sorted(marks):
            return fail('forwarded follow-up request does not carry exactly the modifications of the chain', got=repr(fm), want=repr(sorted(marks)))
    # a THIRD request on the kept connection, every plugin passing: the chain runs once, on that request, and it is forwarded
    sent2 = len(envkit.pending(h.plugin.upstream))
    BEH.clear()
    del LOG[:]
    cs.inq.append(b'GET http://o.example/third HTTP/1.1\r\nHost: o.example\r\n\r\n')
    try:
        td = run(h.handle_events([cs.fd], []))
    except Exception as e:
        return fail('exception left handle_events on the request after the follow-up', exc=repr(e))
    if bool(td) or h.must_flush_before_shutdown:
        return fail('connection closed on the request after a %s follow-up request' % result)
    got = [x for x in LOG if x[0] == 'hcr']
    if got != [('hcr', 0, ()), ('hcr', 1, ())]:
        return fail('request after a %s follow-up: the chain did not run exactly once on it' % result, got=repr(got))
    sent = envkit.pending(h.plugin.upstream)[sent2:]
    try:
        m = refhttp.read_message(sent, False)
    except refhttp.Malformed as e:
        return fail('request after a %s follow-up request not forwarded intact' % result, why=str(e), sent=repr(sent[:80]))
    if m['start'][1] != b'/third' or m['remainder'] != b'':
        return fail('request after a %s follow-up request: something else was forwarded' % result, sent=repr(sent[:80]))
    return ok()


def lifecycle(c0: int, c1: int, l0: int, l1: int) -> bool:
    """
    pre: 0 <= c0 <= 2 and 0 <= c1 <= 2 and 0 <= l0 <= 2 and 0 <= l1 <= 2
    post: _
    """
    begin()
    # upstream-chunk chain and per-connection lifecycle hooks under every way the connection can end
    ending = CFG['ending']
    C = [_lad(c0, 3), _lad(c1, 3)]
    Lg = [_lad(l0, 3), _lad(l1, 3)]
    BEH.clear()
    for i in range(2):
        BEH[(i, 'huc')] = C[i]
        BEH[(i, 'log')] = Lg[i]
    if ending == 'reject':
        BEH[(1, 'bu')] = REJECT
    del LOG[:]
    with concrete():
        env = envkit.new_env()
        if ending == 'connect_fail':
            env.connect_script = [ConnectionRefusedError(errno.ECONNREFUSED, 'refused')]
        xk = envkit.Executor(FL[('pool', False) if CFG.get('pool') else (2, False)], env)
        cs = xk.accept('client')
    ex = xk.ex
    complete = ending != 'incomplete'
    cs.inq.append(b'GET http://o.example/x HTTP/1.1\r\nHost: o.example\r\n\r\n' if complete else b'GET http://o.example/x HTTP/1.1\r\nHo')
    steps = 0

    def step():
        e = xk.step()
        if e is not None:
            raise RuntimeError('exception escaped the executor: %r' % (e,))
    try:
        step()
        us = env.connects[0][1] if env.connects and not isinstance(env.connects[0][1], BaseException) else None
        if ending in ('normal', 'client_eof_after', 'upstream_eof', 'upstream_reset') and us is not None:
            step()
            us.inq.append(b'HTTP/1.1 200 OK\r\nContent-Length: 2\r\n\r\nhi')
            step()
            step()
        if ending in ('normal', 'client_eof_after', 'client_eof', 'incomplete'):
            cs.inq.append(b'')
        elif ending == 'client_reset':
            cs.inq.append(ConnectionResetError(errno.ECONNRESET, 'reset'))
        elif ending == 'upstream_eof' and us is not None:
            us.inq.append(b'')
        elif ending == 'upstream_reset' and us is not None:
            us.inq.append(ConnectionResetError(errno.ECONNRESET, 'reset'))
        for j in range(6):
            if not ex.works:
                break
            step()
    except RuntimeError as e:
        return fail(str(e))
    if ex.works:
        return fail('connection not ended', ending=ending)
    # upstream chunk chain (only where a response was relayed)
    hucs = [x for x in LOG if x[0] == 'huc']
    if ending in ('normal', 'client_eof_after', 'upstream_eof', 'upstream_reset'):
        data = b'HTTP/1.1 200 OK\r\nContent-Length: 2\r\n\r\nhi'
        exp = []
        cur = data
        for i in range(2):
            exp.append(('huc', i, cur))
            if C[i] == 2:
                cur = None
                break
            if C[i] == 1:
                cur = cur + (b'<%d>' % i)
        if hucs != exp:
            return fail('upstream chunk chain order/data flow differs', got=repr(hucs), want=repr(exp))
        want_out = cur if cur is not None else b''
        if cs.out != want_out:
            return fail('client did not receive exactly what the chunk chain produced', got=repr(cs.out), want=repr(want_out))
    # lifecycle hooks: exactly once iff the first request was completely received
    logs = [x for x in LOG if x[0] == 'log']
    closes = [x for x in LOG if x[0] == 'close']
    if not complete:
        if logs or closes:
            return fail('lifecycle hooks fired although the first request never completed', logs=repr(logs), closes=repr(closes))
        return ok()
    exp = []
    m = ()
    for i in range(2):
        exp.append(('log', i, m))
        if Lg[i] == 2:
            break
        if Lg[i] == 1:
            m = m + (i,)
    if logs != exp:
        return fail('access-log chain not run exactly once in order', got=repr(logs), want=repr(exp), ending=ending)
    if closes != [('close', 0), ('close', 1)]:
        return fail('on_upstream_connection_close not run exactly once per plugin', got=repr(closes), ending=ending)
    return ok()


def selftest():
    return refhttp.selftest()


def obligations(tier):
    obs = []
    T = 900
    for n in (1, 2, 3):
        if n == 3:
            # split the 4^6 table on the first plugin's behaviours
            for a in range(4):
                for b in range(4):
                    if tier == 'quick' and (a, b) not in ((0, 0), (1, 1), (2, 0), (0, 2), (3, 0), (0, 3), (1, 0)):
                        continue
                    obs.append({'name': 'chain.n3.p0_%d%d' % (a, b), 'fn': 'chain_n3', 'cfg': {'n': 3, 'a0': a, 'b0': b}, 'timeout': T,
                                'group': 'chain'})
        else:
            obs.append({'name': 'chain.n%d' % n, 'fn': 'chain', 'cfg': {'n': n}, 'timeout': T, 'group': 'chain'})
    obs.append({'name': 'chain.connect.n1', 'fn': 'chain', 'cfg': {'n': 1, 'connect': True}, 'timeout': T, 'group': 'chain'})
    obs.append({'name': 'chain.connect.n2', 'fn': 'chain', 'cfg': {'n': 2, 'connect': True}, 'timeout': T, 'group': 'chain'})
    obs.append({'name': 'chain2.followup', 'fn': 'chain2', 'cfg': {}, 'timeout': T, 'group': 'chain2'})
    obs.append({'name': 'chain.reversed', 'fn': 'chain', 'cfg': {'n': 2, 'reversed': True}, 'timeout': T, 'group': 'chain'})
    obs.append({'name': 'chain.auth_good', 'fn': 'chain', 'cfg': {'n': 2, 'auth': 'good'}, 'timeout': T, 'group': 'chain'})
    obs.append({'name': 'chain.auth_bad', 'fn': 'chain', 'cfg': {'n': 2, 'auth': 'bad'}, 'timeout': T, 'group': 'chain'})
    for ending in ('normal', 'client_eof', 'client_eof_after', 'client_reset', 'upstream_eof', 'upstream_reset', 'connect_fail', 'reject',
                   'incomplete'):
        obs.append({'name': 'lifecycle.%s' % ending, 'fn': 'lifecycle', 'cfg': {'ending': ending}, 'timeout': T, 'group': 'lifecycle'})
        if ending != 'incomplete':
            obs.append({'name': 'lifecycle.pool.%s' % ending, 'fn': 'lifecycle', 'cfg': {'ending': ending, 'pool': True}, 'timeout': T,
                        'group': 'lifecycle'})
    return obs


def chain_n3(a0: int, a1: int, a2: int, b0: int, b1: int, b2: int) -> bool:
    """
    pre: 0 <= a0 <= 3 and 0 <= a1 <= 3 and 0 <= a2 <= 3
    pre: 0 <= b0 <= 3 and 0 <= b1 <= 3 and 0 <= b2 <= 3
    post: _
    """
    if a0 != CFG['a0'] or b0 != CFG['b0']:
        return skip()
    return chain(CFG['a0'], a1, a2, CFG['b0'], b1, b2)


META = {
    'bounds': {
        'quick': '1..3 recording plugins (distinct classes, loaded through the real flag/plugin loader, also in reversed order and behind the '
                 'auth plugin); per plugin the behaviour of before_upstream_connection and handle_client_request is one of {pass, modify '
                 '(adds a marker header the next plugin must see), drop (None), reject (own status/body)}: all 16 (n=1), 256 (n=2) and a '
                 '7/16 slice of 4096 (n=3) tables, for a plain request and (n=1,2) for a CONNECT request; upstream-chunk chain and access-log chain with {pass, modify, drop} per plugin; 9 ways the '
                 'connection ends (normal, client EOF before/after a response, client reset, upstream EOF/reset, connect failure, rejection, '
                 'request never completed) on the real executor, without and with --enable-conn-pool',
        'thorough': 'the full n=3 table',
    },
    'outside': 'hooks of other plugin families (web, reverse proxy), plugins that raise arbitrary exceptions, TLS interception hooks',
    'stubs': ['recording plugins are harness code', 'FakeSocket/connect stub/FakeSelector/FakeLoop', 'reference fold written from the documented '
              'semantics in the property statement'],
}
