"""C18 — event bus delivers each event to every current subscriber exactly once, in order.

Real code: EventDispatcher.handle_event/run_once/_broadcast/_send/_close/_close_and_delete,
EventQueue.publish/subscribe/unsubscribe.
"""
import queue
import threading

from proxy.core.event import queue as _q
from proxy.core.event.dispatcher import EventDispatcher
from proxy.core.event.queue import EventQueue
from proxy.core.event.names import eventNames

from vlib import envkit
from vlib.hk import CFG, begin, ok, fail, skip

envkit.new_env()
_q.time = envkit._CLOCK


class FQ:
    """list-backed stand-in for the multiprocessing queue (FIFO, get raises queue.Empty when empty)."""

    def __init__(self):
        self.items = []

    def put(self, x):
        self.items.append(x)

    def get(self, block=True, timeout=None):
        if not self.items:
            raise queue.Empty()
        return self.items.pop(0)

    def get_nowait(self):
        return self.get(False)

    def put_nowait(self, x):
        self.put(x)

    def empty(self):
        return not self.items

    def qsize(self):
        return len(self.items)


class FC:
    """stand-in for a multiprocessing Connection: send raises BrokenPipeError once broken."""

    def __init__(self, sid):
        self.sid = sid
        self.got = []
        self.broken = False
        self.closed = False

    def send(self, x):
        if self.closed:
            raise OSError('handle is closed')
        if self.broken:
            raise BrokenPipeError()
        self.got.append(x)

    def close(self):
        self.closed = True


def bus(o0: int, o1: int, o2: int, o3: int, o4: int, o5: int) -> bool:
    """
    pre: 0 <= o0 and 0 <= o1 and 0 <= o2 and 0 <= o3 and 0 <= o4 and 0 <= o5
    post: _
    """
    begin()
    N = CFG['subs']
    L = CFG['len']
    ops = [o0, o1, o2, o3, o4, o5][:L]
    if 'first' in CFG:
        if o0 != CFG['first']:
            return skip()
    cops = []
    for o in ops:
        if o > 3 * N + 1:
            return skip()
        for k in range(3 * N + 2):      # case split: make the opcode concrete on this path
            if o == k:
                cops.append(k)
                break
    ops = cops
    envkit.new_env()
    q = FQ()
    eq = EventQueue(q)
    d = EventDispatcher(threading.Event(), eq)
    batch = bool(CFG.get('batch'))     # True: every request is enqueued first, the dispatcher runs afterwards until the queue is empty
    pending_runs = 0
    cur = [None] * N          # live channel per subscriber id (reference model)
    chans = []                # every channel ever created, with its expected message kinds
    seq = 0
    for o in ops:
        enq = True
        if batch and (o == 3 * N + 1 or 2 * N <= o < 3 * N):
            return skip()       # breaking a channel is not a queued request: its position relative to queued ones is not defined
        if o == 3 * N + 1:
            # subscriber 0 subscribes with a channel that is broken already when the acknowledgement is sent
            if cur[0] is not None:
                return skip()
            c = FC(0)
            c.broken = True
            c.expect = []
            c.must_close = True
            chans.append(c)
            eq.subscribe('s0', c)
        elif o < N:
            if cur[o] is not None and not cur[o].broken:
                return skip()       # re-subscribing a live id is outside the property (ids are unique)
            if cur[o] is not None:
                # the subscriber's channel broke (not noticed by the dispatcher yet) and it comes back under its id with a fresh channel
                cur[o].replaced = True
            c = FC(o)
            c.expect = ['SUB']
            chans.append(c)
            cur[o] = c
            eq.subscribe('s%d' % o, c)
        elif o < 2 * N:
            i = o - N
            eq.unsubscribe('s%d' % i)
            c = cur[i]
            if c is not None:
                if not c.broken:
                    c.expect.append('UNSUB')
                c.must_close = True
                cur[i] = None
        elif o < 3 * N:
            i = o - 2 * N
            if cur[i] is not None and cur[i].broken:
                return skip()
            c = cur[i]
            if c is not None:
                c.broken = True
            enq = False
        else:
            seq += 1
            eq.publish('req', 1000 + seq, {'n': seq})
            for i in range(N):
                c = cur[i]
                if c is not None:
                    if c.broken:
                        c.must_close = True      # detected now: must be evicted and closed
                        cur[i] = None
                    else:
                        c.expect.append(seq)
        if enq and batch:
            pending_runs += 1
        elif enq:
            try:
                d.run_once()
            except queue.Empty:
                return fail('an enqueued event was not there')
            except Exception as e:
                return fail('dispatcher raised', exc=repr(e))
        else:
            try:
                d.run_once()
                return fail('run_once consumed an event that was never enqueued')
            except queue.Empty:
                pass
    if batch:
        # requests are handled strictly in the order they were queued, however many are waiting when the dispatcher gets to run
        for k in range(pending_runs + 1):
            try:
                d.run_once()
            except queue.Empty:
                break
            except Exception as e:
                return fail('dispatcher raised', exc=repr(e))
    for c in chans:
        got = []
        for m in c.got:
            nm = m.get('event_name')
            if nm == eventNames.SUBSCRIBED:
                got.append('SUB')
            elif nm == eventNames.UNSUBSCRIBED:
                got.append('UNSUB')
            else:
                got.append(m['event_payload']['n'])
        if got != c.expect:
            return fail('subscriber received a different sequence', sid=c.sid, got=repr(got), want=repr(c.expect))
        if getattr(c, 'replaced', False):
            continue        # superseded by a fresh channel of the same id: whether the dispatcher closes the old end is not the subject
        if getattr(c, 'must_close', False) and not c.closed:
            return fail('channel of a removed subscriber was not closed', sid=c.sid)
        if not getattr(c, 'must_close', False) and c.closed:
            return fail('channel of a live subscriber was closed', sid=c.sid)
    live = sorted('s%d' % i for i in range(N) if cur[i] is not None)
    if sorted(d.subscribers.keys()) != live:
        return fail('dispatcher registry differs from the set of live subscribers', got=repr(sorted(d.subscribers)), want=repr(live))
    for i in range(N):
        if cur[i] is not None and d.subscribers['s%d' % i] is not cur[i]:
            return fail('registry maps the id to another channel')
    if q.items:
        return fail('events left in the queue')
    return ok()


def obligations(tier):
    obs = []
    if tier == 'quick':
        shapes = [(2, 5), (3, 4)]
    else:
        shapes = [(2, 6), (3, 5), (1, 6)]
    for N, L in shapes:
        for first in range(3 * N + 2):
            obs.append({'name': 'bus.s%d.len%d.first%d' % (N, L, first), 'fn': 'bus',
                        'cfg': {'subs': N, 'len': L, 'first': first}, 'timeout': 600 if tier == 'quick' else 3000})
    for N, L in ((2, 4), (1, 5)) if tier == 'quick' else ((2, 5), (1, 6)):
        for first in range(3 * N + 1):
            if 2 * N <= first < 3 * N:
                continue
            obs.append({'name': 'bus.batch.s%d.len%d.first%d' % (N, L, first), 'fn': 'bus',
                        'cfg': {'subs': N, 'len': L, 'first': first, 'batch': True}, 'timeout': 600 if tier == 'quick' else 3000})
    return obs


META = {
    'bounds': {
        'quick': 'all histories of length 5 over 2 subscribers and of length 4 over 3 subscribers; operations: subscribe i (fresh channel), '
                 'unsubscribe i (also unknown / repeated), break channel i, publish, subscribe with a channel that is already broken, come back '
                 'under the same id with a fresh channel after the old one broke; run_once after every operation; and histories of subscribe / unsubscribe / publish (length 4 over 2 subscribers, 5 over 1) that are '
                 'queued completely before the dispatcher runs',
        'thorough': 'length 6 over 2 subscribers, 5 over 3, 6 over 1',
    },
    'outside': 'real pipes, threads and pickling (EventManager, EventSubscriber.relay); re-subscribing an id whose channel is intact '
               '(ids are documented as unique); dispatcher shutdown broadcast',
    'stubs': ['list-backed FIFO queue', 'channel stub whose send() raises BrokenPipeError once broken and OSError once closed',
              'time.time in proxy.core.event.queue replaced by an integer clock'],
}
