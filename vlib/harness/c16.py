"""C16 — WebSocket frames round-trip for every size and flag combination.

Real code: WebsocketFrame.build/parse/parse_fin_and_rsv/parse_mask_and_payload/apply_mask/reset/key_to_accept.
"""
import base64
import hashlib
import random

import z3

from proxy.http.websocket.frame import WebsocketFrame

from vlib import kernel
try:
    from vlib import plugin as _plugin
    _plugin.BYTESIO_MODEL[0] = True
except Exception:      # native replay: no CrossHair plugin needed
    pass
from vlib.hk import CFG, begin, ok, fail, skip, B, concrete

MASKS = [b'\x00\x00\x00\x00', b'\x12\x34\x56\x78', b'\xff\x01\x80\x7f']


def rfc6455_encode(fin, r1, r2, r3, opcode, masked, mask, payload):
    """Independent encoder written from RFC 6455 section 5.2 (no proxy.py code, no bit operators)."""
    b0 = (128 if fin else 0) + (64 if r1 else 0) + (32 if r2 else 0) + (16 if r3 else 0) + opcode
    n = len(payload)
    mbit = 128 if masked else 0
    if n < 126:
        hdr = [b0, mbit + n]
    elif n < 65536:
        hdr = [b0, mbit + 126, n // 256, n % 256]
    else:
        hdr = [b0, mbit + 127] + [(n // (256 ** (7 - i))) % 256 for i in range(8)]
    out = bytes(hdr)
    if masked:
        out = out + mask
        masked_payload = []
        for i, c in enumerate(payload):
            m = mask[i % 4]
            # xor without '^': per-bit arithmetic on concrete mask bytes
            x = 0
            for bit in range(8):
                p = 2 ** bit
                cb = (c // p) % 2
                mb = (m // p) % 2
                x += p * ((cb + mb) % 2)
            masked_payload.append(x)
        out = out + bytes(masked_payload)
    else:
        out = out + payload
    return out


def frame_roundtrip(fin: int, r1: int, r2: int, r3: int, opcode: int, d0: int, d1: int, t0: int, t1: int) -> bool:
    """
    pre: 0 <= fin <= 1 and 0 <= r1 <= 1 and 0 <= r2 <= 1 and 0 <= r3 <= 1
    pre: 0 <= opcode < 16
    pre: 0 <= d0 < 256 and 0 <= d1 < 256 and 0 <= t0 < 256 and 0 <= t1 < 256
    post: _
    """
    begin()
    plen = CFG['plen']
    masked = CFG['masked']
    mask = MASKS[CFG['mask']] if masked else None
    ntrail = CFG['ntrail']
    if masked:
        # symbolic ^ concrete realises the symbolic byte: keep the payload concrete under a mask
        # (the masking law itself is discharged by the SMT kernel obligations); reserved bits concrete
        d0, d1 = CFG.get('d0', 0xa5), CFG.get('d1', 0x5a)
        if r1 != CFG.get('r1', 0) or r2 != 0 or r3 != 0:
            return skip()
        r1, r2, r3 = CFG.get('r1', 0), 0, 0
    payload = (B(d0, d1) + bytes(max(plen - 2, 0)))[:plen]
    T = B(t0, t1)[:ntrail]
    # an earlier frame of the same process with the same opcode, mask flag and length but the complementary flag bits: what was
    # built before must not influence this frame (encoders keep no state between frames)
    p = WebsocketFrame()
    p.fin, p.rsv1, p.rsv2, p.rsv3 = not bool(fin), not bool(r1), bool(r2), bool(r3)
    p.opcode = opcode
    p.masked = masked
    p.mask = mask
    p.data = bytes(plen)
    try:
        p.build()
    except Exception as e:
        return fail('build() of an earlier frame raised', exc=repr(e))
    f = WebsocketFrame()
    f.fin, f.rsv1, f.rsv2, f.rsv3 = bool(fin), bool(r1), bool(r2), bool(r3)
    f.opcode = opcode
    f.masked = masked
    f.mask = mask
    f.data = payload
    try:
        raw = f.build()
    except Exception as e:
        return fail('build() raised', exc=repr(e))
    if masked:
        with concrete():
            want_tail = rfc6455_encode(0, 0, 0, 0, 0, masked, mask, payload)[1:]
        want = rfc6455_encode(fin, r1, r2, r3, opcode, False, None, b'')[:1] + want_tail
    else:
        want = rfc6455_encode(fin, r1, r2, r3, opcode, masked, mask, payload)
    if raw != want:
        return fail('encoding differs from RFC 6455', got=repr(raw[:16]), want=repr(want[:16]), n=len(raw), wn=len(want))
    g = WebsocketFrame()
    try:
        rem = g.parse(raw + T)
    except Exception as e:
        return fail('parse() raised', exc=repr(e))
    if (g.fin, g.rsv1, g.rsv2, g.rsv3) != (bool(fin), bool(r1), bool(r2), bool(r3)):
        return fail('flag bits not preserved')
    if g.opcode != opcode:
        return fail('opcode not preserved')
    if g.masked != masked or g.payload_length != plen:
        return fail('mask bit / payload length not preserved', got=g.payload_length)
    if (g.data or b'') != payload:
        return fail('payload not preserved')
    if masked and g.mask != mask:
        return fail('masking key not preserved')
    if rem != T:
        return fail('bytes after the frame not returned untouched', rem=repr(rem))
    # the idiom of the web server's read loop: one frame object, reset() between frames of the same read
    g.reset()
    try:
        rem2 = g.parse(raw + T)
    except Exception as e:
        return fail('parse() after reset() raised', exc=repr(e))
    if (g.fin, g.opcode, g.masked, g.payload_length, g.data or b'', rem2) != (bool(fin), opcode, masked, plen, payload, T):
        return fail('the same frame object, reset() and parsed again, yields different fields')
    return ok()


# --------------------------------------------------------------------------- #
# SMT kernels (AST -> z3 bit-vectors), full width over all field values
# --------------------------------------------------------------------------- #
def _header_bytes_term(fin, r1, r2, r3, opcode, masked, len7):
    """First two header bytes as build() computes them: translate the two struct.pack arguments
    out of build()'s current source."""
    import ast
    import inspect
    import textwrap
    src = textwrap.dedent(inspect.getsource(WebsocketFrame.build))
    tree = ast.parse(src).body[0]
    packs = [n for n in ast.walk(tree) if isinstance(n, ast.Call) and isinstance(n.func, ast.Attribute) and n.func.attr == 'pack']
    packs.sort(key=lambda n: n.lineno)
    if len(packs) < 2 or not (isinstance(packs[0].args[0], ast.Constant) and packs[0].args[0].value == '!B'):
        raise kernel.Unsupported('build(): first struct.pack is not the one-byte header')
    it = kernel.Interp(WebsocketFrame.build, width=16)
    env = {'self': {'fin': fin, 'rsv1': r1, 'rsv2': r2, 'rsv3': r3, 'opcode': opcode, 'masked': masked, 'payload_length': len7}}
    b0 = it._expr(packs[0].args[1], env)
    b1 = it._expr(packs[1].args[1], env)
    return b0, b1


def _bv(c, v, w=16):
    return z3.If(c, z3.BitVecVal(v, w), z3.BitVecVal(0, w))


def k_header(cfg, twin):
    W = 16
    fin, r1, r2, r3, masked = z3.Bools('fin r1 r2 r3 masked')
    opcode, len7 = z3.BitVecs('opcode len7', W)
    assume = [z3.ULT(opcode, 16), z3.ULT(len7, 126)]
    b0, b1 = _header_bytes_term(fin, r1, r2, r3, opcode, masked, len7)
    # decode with the real parse_fin_and_rsv / parse_mask_and_payload
    i1 = kernel.Interp(WebsocketFrame.parse_fin_and_rsv, width=16)
    _, a1 = i1.call([b0], {})
    i2 = kernel.Interp(WebsocketFrame.parse_mask_and_payload, width=16)
    _, a2 = i2.call([b1], {})
    claim = z3.And(z3.ULT(b0, 256), z3.ULT(b1, 256),
                   a1['fin'] == fin, a1['rsv1'] == r1, a1['rsv2'] == r2, a1['rsv3'] == r3, a1['opcode'] == opcode,
                   a2['masked'] == masked, a2['payload_length'] == len7,
                   # and equality with the RFC layout written arithmetically
                   b0 == _bv(fin, 128) + _bv(r1, 64) + _bv(r2, 32) + _bv(r3, 16) + opcode,
                   b1 == _bv(masked, 128) + len7)
    # translator validation: concrete evaluation of the terms vs the native code
    rnd = random.Random(1)
    nval = 0
    for _ in range(600):
        vals = [rnd.random() < .5 for _ in range(5)] + [rnd.randrange(16), rnd.randrange(126)]
        f = WebsocketFrame()
        f.fin, f.rsv1, f.rsv2, f.rsv3, f.masked, f.opcode, f.data = vals[0], vals[1], vals[2], vals[3], vals[4], vals[5], b'x' * vals[6]
        if vals[6] == 0:
            continue
        raw = f.build()
        sub = [(fin, z3.BoolVal(vals[0])), (r1, z3.BoolVal(vals[1])), (r2, z3.BoolVal(vals[2])), (r3, z3.BoolVal(vals[3])),
               (masked, z3.BoolVal(vals[4])), (opcode, z3.BitVecVal(vals[5], W)), (len7, z3.BitVecVal(vals[6], W))]
        e0 = z3.simplify(z3.substitute(b0, *sub)).as_long()
        e1 = z3.simplify(z3.substitute(b1, *sub)).as_long()
        if (e0, e1) != (raw[0], raw[1]):
            return {'status': 'HARNESS_ERROR', 'message': 'translator disagrees with native build(): %r vs %r' % ((e0, e1), raw[:2])}
        nval += 1
    if twin:
        st, m = kernel.prove(z3.BoolVal(False), assume)
        return {'status': 'REFUTED' if st == 'sat' else 'CONFIRMED', 'args': [1, 0, 0, 0, 1, 0, 5], 'cases': 1}
    st, m = kernel.prove(claim, assume)
    if st == 'unsat':
        return {'status': 'CONFIRMED', 'cases': 2, 'validated': nval}
    if st == 'sat':
        def bv(x):
            return m.eval(x, model_completion=True)
        args = [int(z3.is_true(bv(fin))), int(z3.is_true(bv(r1))), int(z3.is_true(bv(r2))), int(z3.is_true(bv(r3))),
                bv(opcode).as_long(), int(z3.is_true(bv(masked))), bv(len7).as_long()]
        return {'status': 'REFUTED', 'args': args, 'message': 'header byte kernel counterexample', 'cases': 2}
    return {'status': 'UNKNOWN', 'message': str(m)}


def k_header_replay(fin, r1, r2, r3, opcode, masked, len7):
    begin()
    f = WebsocketFrame()
    f.fin, f.rsv1, f.rsv2, f.rsv3, f.masked, f.opcode = bool(fin), bool(r1), bool(r2), bool(r3), bool(masked), opcode
    f.mask = b'\0\0\0\0'
    f.data = b'x' * len7
    if len7 == 0:
        return ok()
    raw = f.build()
    g = WebsocketFrame()
    g.parse_fin_and_rsv(raw[0])
    g.parse_mask_and_payload(raw[1])
    if (g.fin, g.rsv1, g.rsv2, g.rsv3, g.opcode, g.masked, g.payload_length) != (bool(fin), bool(r1), bool(r2), bool(r3), opcode, bool(masked), len7):
        return fail('header bytes do not decode to the fields', raw=repr(raw[:2]))
    if raw[:2] != rfc6455_encode(fin, r1, r2, r3, opcode, masked, b'\0\0\0\0', b'x' * len7)[:2]:
        return fail('header bytes differ from RFC 6455', raw=repr(raw[:2]))
    return ok()


def k_mask(cfg, twin):
    """apply_mask translated for an 8-byte payload with symbolic data and key."""
    n = cfg['n']
    d = [z3.BitVec('d%d' % i, 8) for i in range(n)]
    m = [z3.BitVec('m%d' % i, 8) for i in range(4)]
    it = kernel.Interp(WebsocketFrame.apply_mask)
    out, _ = it.call([list(d), list(m)])
    if not isinstance(out, list) or len(out) != n:
        return {'status': 'HARNESS_ERROR', 'message': 'apply_mask translation did not return %d bytes' % n}
    again, _ = kernel.Interp(WebsocketFrame.apply_mask).call([list(out), list(m)])
    claim = z3.And(*([out[i] == (d[i] ^ m[i % 4]) for i in range(n)] + [again[i] == d[i] for i in range(n)]))
    rnd = random.Random(2)
    nval = 0
    for _ in range(400):
        dv = bytes(rnd.randrange(256) for _ in range(n))
        mv = bytes(rnd.randrange(256) for _ in range(4))
        nat = WebsocketFrame.apply_mask(dv, mv)
        sub = [(d[i], z3.BitVecVal(dv[i], 8)) for i in range(n)] + [(m[i], z3.BitVecVal(mv[i], 8)) for i in range(4)]
        got = bytes(z3.simplify(z3.substitute(o, *sub)).as_long() for o in out)
        if got != nat:
            return {'status': 'HARNESS_ERROR', 'message': 'translator disagrees with native apply_mask'}
        nval += 1
    if twin:
        return {'status': 'REFUTED', 'args': [0] * n + [1, 2, 3, 4], 'cases': 1}
    st, mdl = kernel.prove(claim)
    if st == 'unsat':
        return {'status': 'CONFIRMED', 'cases': 2 * n, 'validated': nval}
    if st == 'sat':
        args = [mdl.eval(x, model_completion=True).as_long() for x in d + m]
        return {'status': 'REFUTED', 'args': args, 'message': 'masking law counterexample', 'cases': 2 * n}
    return {'status': 'UNKNOWN', 'message': str(mdl)}


def k_mask_replay(*a):
    begin()
    n = len(a) - 4
    d, m = bytes(a[:n]), bytes(a[n:])
    out = WebsocketFrame.apply_mask(d, m)
    if out != bytes(d[i] ^ m[i % 4] for i in range(n)):
        return fail('apply_mask differs from RFC 6455 masking', out=repr(out))
    if WebsocketFrame.apply_mask(out, m) != d:
        return fail('masking is not an involution')
    return ok()


def selftest():
    # independent encoder vs RFC 6455 examples
    assert rfc6455_encode(1, 0, 0, 0, 1, False, None, b'Hello') == bytes([0x81, 0x05]) + b'Hello'
    assert rfc6455_encode(1, 0, 0, 0, 1, True, bytes([0x37, 0xfa, 0x21, 0x3d]), b'Hello') == bytes(
        [0x81, 0x85, 0x37, 0xfa, 0x21, 0x3d, 0x7f, 0x9f, 0x4d, 0x51, 0x58])
    assert rfc6455_encode(1, 0, 0, 0, 2, False, None, bytes(256))[:4] == bytes([0x82, 0x7E, 0x01, 0x00])
    assert rfc6455_encode(1, 0, 0, 0, 2, False, None, bytes(65536))[:10] == bytes([0x82, 0x7F, 0, 0, 0, 0, 0, 1, 0, 0])
    return 4


def big_masked(plen, mi):
    """Masked frame with a large payload, run natively on concrete vectors (apply_mask over 64 KiB is too
    slow under opcode tracing): NOT a solver claim."""
    begin()
    mask = MASKS[mi]
    f = WebsocketFrame()
    f.fin, f.opcode, f.masked, f.mask = True, 2, True, mask
    f.data = bytes((i * 7) % 256 for i in range(plen))
    try:
        raw = f.build()
    except Exception as e:
        return fail('build() raised', exc=repr(e))
    if raw != rfc6455_encode(1, 0, 0, 0, 2, True, mask, f.data):
        return fail('encoding differs from RFC 6455', head=repr(raw[:16]))
    g = WebsocketFrame()
    if g.parse(raw + b'zz') != b'zz' or g.data != f.data or g.payload_length != plen or g.mask != mask:
        return fail('masked large frame does not round-trip')
    return ok()


def accept_token(seed):
    """Handshake accept token vs the RFC formula on concrete keys (SHA-1/base64 are C code: NOT a solver claim)."""
    begin()
    if seed == 0:
        key, want = b'dGhlIHNhbXBsZSBub25jZQ==', b's3pPLMBiTxaQ9kYGzzhZRbK+xOo='
    else:
        rnd = random.Random(seed)
        key = base64.b64encode(bytes(rnd.randrange(256) for _ in range(16)))
        want = base64.b64encode(hashlib.sha1(key + b'258EAFA5-E914-47DA-95CA-C5AB0DC85B11').digest())
    if WebsocketFrame.key_to_accept(key) != want:
        return fail('accept token differs from the RFC 6455 formula', key=repr(key))
    return ok()


def obligations(tier):
    obs = []
    obs.append({'name': 'kernel.header', 'kind': 'smt', 'fn': 'k_header', 'replay_fn': 'k_header_replay', 'cfg': {}, 'timeout': 120,
                'group': 'k_header'})
    for n in (4, 8) if tier == 'quick' else (1, 4, 5, 8, 9):
        obs.append({'name': 'kernel.mask.n%d' % n, 'kind': 'smt', 'fn': 'k_mask', 'replay_fn': 'k_mask_replay', 'cfg': {'n': n},
                    'timeout': 120, 'group': 'k_mask'})
    obs.append({'name': 'concrete.big_masked', 'kind': 'concrete', 'fn': 'big_masked', 'cfg': {}, 'group': 'concrete',
                'args_list': [[n, m] for n in (65535, 65536, 65537) for m in (1, 2)], 'timeout': 120})
    obs.append({'name': 'concrete.accept_token', 'kind': 'concrete', 'fn': 'accept_token', 'cfg': {}, 'group': 'concrete',
                'args_list': [[i] for i in range(33)], 'timeout': 120})
    lens = [1, 0, 2, 125, 126, 127, 65535, 65536, 65537]
    if tier == 'thorough':
        lens += [3, 124, 128, 130, 65530, 65540, 70000]
    for plen in lens:
        for masked, mi in ((False, 0), (True, 1), (True, 2)):
            if masked and plen > 130:
                continue     # masked large frames: concrete vectors in the oracle self-test (apply_mask loop is too slow traced)
            for nt in (0, 2):
                if tier == 'quick' and (plen > 1000 or masked) and nt == 0:
                    continue
                obs.append({'name': 'frame.len%d.%s.t%d' % (plen, 'mask%d' % mi if masked else 'plain', nt), 'fn': 'frame_roundtrip',
                            'cfg': {'plen': plen, 'masked': masked, 'mask': mi, 'ntrail': nt, 'r1': mi % 2},
                            'timeout': 600 if plen > 1000 else 200})
    return obs


META = {
    'bounds': {
        'quick': 'SMT kernels: all fin/rsv1-3/masked, opcode<16, 7-bit length<126 (16-bit vectors) for the two header bytes as build() '
                 'computes them and as parse_fin_and_rsv/parse_mask_and_payload decode them; apply_mask on 4 and 8 symbolic bytes with a '
                 'symbolic key. CrossHair round trip: payload lengths {0,1,2,125,126,127,65535,65536,65537}, all 16 flag combinations x 16 '
                 'opcodes, unmasked with 2 symbolic payload bytes (rest zero); masked (lengths <= 127 only, fin/opcode symbolic, reserved bits concrete) with 2 concrete keys on concrete payload, 0 or 2 '
                 'symbolic trailing bytes',
        'thorough': 'additional lengths 3,124,128,130,65530,65540,70000; mask kernel for n in 1,4,5,8,9',
    },
    'outside': 'payloads > 70000 bytes; masked frames above 127 bytes (6 concrete vectors run natively, reported as concrete_vectors, not a solver claim); symbolic payload under a symbolic mask at structural level (covered by the kernel law only); '
               'key_to_accept on symbolic keys (SHA-1/base64 are C code: 33 concrete vectors run natively, not a solver claim)',
    'stubs': ['none (pure functions); secrets.token_bytes never reached because a mask is always supplied',
              'AST->z3 translator vlib/kernel.py validated against the native functions on 1000 random inputs per run'],
}
