"""C10 — every connection's resources are released exactly once, however it ends.

Real code: Threadless._cleanup/_update_work_events/_cleanup_inactive/_run_once, ThreadlessFdExecutor.work,
HttpProtocolHandler.shutdown, HttpProxyPlugin.on_client_connection_close/_close_and_release,
HttpWebServerPlugin/ReverseProxy.on_client_connection_close, TcpUpstreamConnectionHandler.get_descriptors, TcpConnection.close.
"""
import errno
import socket

from vlib import envkit, scen
from vlib.hk import CFG, begin, ok, fail, skip, B, run, cat, concrete

envkit.install()

# one action per executor iteration; 'c:' client sends, 'u:' upstream sends
SCRIPTS = {
    'forward': ['c:GET http://o.example/a{0} HTTP/1.1\r\nHost: o.example\r\n\r\n', 'u:RESP', 'c:GET http://o.example/b HTTP/1.1\r\nHost: o.example\r\n\r\n',
                'u:RESP', '-'],
    'tunnel': ['c:CONNECT t.example:443 HTTP/1.1\r\n\r\n', 'c:\x16\x03{0}', 'u:\x16\x03\x03{0}', 'c:zz', '-'],
    'web': ['c:GET /hello{0} HTTP/1.1\r\nHost: x\r\n\r\n', 'c:GET /hello2 HTTP/1.1\r\nHost: x\r\n\r\n', '-'],
    'web404': ['c:GET /nope{0} HTTP/1.1\r\nHost: x\r\n\r\n', '-'],
    'reverse': ['c:GET /get HTTP/1.1\r\nHost: {0}x\r\n\r\n', 'u:RESP', '-'],
    'garbage': ['c:\x01\x02{0}\r\n\r\n', '-'],
    # a proxy plugin rejects the (first / the follow-up) request from handle_client_request, i.e. after the upstream connection exists
    'reject': ['D:GET http://o.example/deny{0} HTTP/1.1\r\nHost: o.example\r\n\r\n', '-'],
    'reject2': ['c:GET http://o.example/a{0} HTTP/1.1\r\nHost: o.example\r\n\r\n', 'u:RESP',
                'D:GET http://o.example/deny HTTP/1.1\r\nHost: o.example\r\n\r\n', '-'],
}
ROLE_FLAGS = {'forward': 'forward', 'tunnel': 'forward', 'web': 'web', 'web404': 'web', 'reverse': 'all', 'garbage': 'forward', 'reject': 'forward_reject',
              'reject2': 'forward_reject'}


def _abort_item(kind):
    if kind == 'eof':
        return b''
    if kind == 'reset':
        return ConnectionResetError(errno.ECONNRESET, 'reset')
    if kind == 'eio':
        return OSError(errno.EIO, 'io')
    if kind == 'timeout':
        return TimeoutError(errno.ETIMEDOUT, 'timeout')
    if kind == 'timeout_noerrno':
        return socket.timeout('timed out')          # what a socket with a timeout raises: TimeoutError without errno
    if kind == 'garbage':
        return b'\x00\x01\r\nnot-http\r\n\r\n'       # bytes instead of an error: an upstream that does not speak HTTP
    raise ValueError(kind)


def _one_connection(xk, env, role, d0, s0, s1, abort_at, abort_side, abort_kind, connect):
    """Runs one connection script with the configured abort; returns (error string | None)."""
    ex = xk.ex
    scen.DENY[0] = False
    first = len(env.sockets)
    cs = xk.accept('client')
    cs.mode = 'fair'
    cs.sendscript = [s0, s1]
    nconn0 = len(env.connects)
    if connect != 'ok':
        env.connect_script = [None] * nconn0 + [{'refused': ConnectionRefusedError(errno.ECONNREFUSED, 'refused'),
                                                   'timeout': TimeoutError(errno.ETIMEDOUT, 'timed out'),
                                                   'gaierror': socket.gaierror(-2, 'unknown name')}[connect]]
    script = SCRIPTS[role]
    us = None
    injected = None
    for i in range(len(script) + 6):
        if us is None:
            for addr, s in env.connects[nconn0:]:
                if not isinstance(s, BaseException):
                    us = s
        act = script[i] if i < len(script) else '-'
        if i == abort_at:
            tgt = cs if abort_side == 'client' else us
            if tgt is not None and not tgt.closed:
                if abort_kind == 'epipe':
                    tgt.sendscript = [0] * tgt.si + [envkit.BROKEN_PIPE]
                    if tgt is us:
                        us.inq.append(b'')      # make sure the loop notices: the peer also closes
                else:
                    tgt.inq.append(_abort_item(abort_kind))
                    if abort_kind != 'garbage' or (role == 'forward' and abort_at == 1):
                        # (garbage instead of the FIRST HTTP response makes the forward proxy's response parser raise: a protocol error ends
                        # the connection; after a complete response, unparseable bytes are relayed untouched by design)
                        injected = tgt
        elif act[:2] in ('c:', 'D:') and not cs.closed:
            if act[0] == 'D':
                scen.DENY[0] = True
            raw = act[2:].encode('latin-1')
            parts = raw.split(b'{0}')
            data = parts[0]
            for p in parts[1:]:
                data = data + B(d0) + p
            cs.inq.append(data)
        elif act.startswith('u:') and us is not None and not us.closed:
            if act == 'u:RESP':
                us.inq.append(scen.response(b'o', B(d0)))
            else:
                raw = act[2:].encode('latin-1')
                parts = raw.split(b'{0}')
                data = parts[0]
                for p in parts[1:]:
                    data = data + B(d0) + p
                us.inq.append(data)
        e = xk.step()
        if e is not None:
            return 'exception escaped the executor loop: %r' % (e,)
        if not ex.works:
            break
    if ex.works and injected is not None and not injected.inq:
        # the proxy has read the end-of-stream / error we injected: the connection is over and must have been torn down by now
        return 'connection still served although its peer closed / failed %d iterations ago' % (i - abort_at)
    if ex.works:
        # the connection is still open (no abort hit it): it ends by idle timeout
        env.clock = env.clock + 100000
        try:
            ex._cleanup_inactive()
        except Exception as e:
            return '_cleanup_inactive raised: %r' % (e,)
        for j in range(3):
            if not ex.works:
                break
            e = xk.step()
            if e is not None:
                return 'exception escaped the executor loop after reaping: %r' % (e,)
            env.clock = env.clock + 100000
            ex._cleanup_inactive()
    if ex.works:
        return 'connection still known to the executor after abort and idle timeout'
    for s in env.sockets[first:]:
        if not s.closed:
            return 'socket %s opened for the connection was never closed' % s.name
        if s.misuse:
            return 'socket %s used after close: %r' % (s.name, s.misuse)
    if ex.selector.map:
        return 'descriptors left registered with the selector: %r' % (sorted(ex.selector.map),)
    if ex.registered_events_by_work_ids:
        return 'registered_events_by_work_ids not empty: %r' % (ex.registered_events_by_work_ids,)
    if ex.unfinished:
        return 'unfinished tasks left'
    return None


def release(d0: int, s0: int, s1: int) -> bool:
    """
    pre: 33 <= d0 <= 126
    pre: 0 <= s0 <= 3 and 0 <= s1 <= 3
    post: _
    """
    begin()
    role = CFG['role']
    if d0 == 63 or d0 == 35 or d0 == 47 or d0 == 58 or d0 == 64:
        return skip()
    with concrete():
        env = envkit.new_env()
        xk = envkit.Executor(scen.FLAGS[ROLE_FLAGS[role]], env)
    err = _one_connection(xk, env, role, d0, s0, s1, CFG['abort_at'], CFG['abort_side'], CFG['abort_kind'], CFG.get('connect', 'ok'))
    if err is not None:
        return fail(err)
    if CFG.get('repeat'):
        nsock = len(env.sockets)
        err = _one_connection(xk, env, role, d0, s1, s0, CFG['abort_at'], CFG['abort_side'], CFG['abort_kind'], CFG.get('connect', 'ok'))
        if err is not None:
            return fail('second run of the same history: ' + err)
        if len(env.sockets) - nsock != nsock:
            return fail('repeating the history opened a different number of sockets', first=nsock, second=len(env.sockets) - nsock)
    return ok()


def admit_release(d0: int, kind: int) -> bool:
    """
    pre: 33 <= d0 <= 126
    pre: 0 <= kind <= 5
    post: _
    """
    begin()
    # remote executor (descriptors arrive from the acceptor over a pipe and must be os.close()d by the worker) behind a TLS-terminating
    # listener: a connection whose handshake fails at admission, then one that is admitted, served and ends: the received descriptor of
    # each is closed exactly once, nothing stays behind
    import ssl as _ssl
    faults = [_ssl.SSLError(1, 'wrong version number'), ConnectionResetError(errno.ECONNRESET, 'reset'), _ssl.SSLEOFError(8, 'EOF'),
              TimeoutError(errno.ETIMEDOUT, 'timed out'), OSError(errno.EIO, 'io'), None]
    fault = None
    for k in range(6):
        if kind == k:
            fault = faults[k]
    if d0 == 63 or d0 == 35 or d0 == 47 or d0 == 58 or d0 == 64:
        return skip()
    with concrete():
        env = envkit.new_env()
        xk = envkit.Executor(scen.FLAGS['forward_tls'], env, remote=True)
    ex = xk.ex
    if fault is not None:
        env.wrap_faults['bad'] = fault
        try:
            bad = xk.accept('bad')
        except Exception as e:
            return fail('exception escaped the executor while admitting a connection', exc=repr(e))
        if not bad.closed:
            return fail('socket of a connection whose admission failed was not closed')
        if env.os_closed != [bad.fd]:
            return fail('descriptor received for a connection whose admission failed was not os.close()d exactly once', closed=repr(env.os_closed))
        if ex.works or ex.selector.map or ex.registered_events_by_work_ids:
            return fail('a connection whose admission failed left something behind', works=repr(list(ex.works)))
    n0 = len(env.os_closed)
    cs = xk.accept('good')
    cs.inq.append(b'GET http://o.example/a' + B(d0) + b' HTTP/1.1\r\nHost: o.example\r\n\r\n')
    for i in range(6):
        if i == 2:
            cs.inq.append(b'')
        e = xk.step()
        if e is not None:
            return fail('exception escaped the executor loop', exc=repr(e))
        if not ex.works:
            break
    if ex.works:
        return fail('connection still known to the executor after its client closed')
    for s_ in env.sockets:
        if not s_.closed:
            return fail('socket %s never closed' % s_.name)
    if env.os_closed[n0:] != [cs.fd]:
        return fail('descriptor received for an admitted connection was not os.close()d exactly once', closed=repr(env.os_closed[n0:]))
    if ex.selector.map or ex.registered_events_by_work_ids:
        return fail('descriptors left registered')
    return ok()


class _StubWork:
    """A work as the executor sees it: offers descriptors of interest, can be shut down. What it offers is chosen by the solver."""

    def __init__(self, offers):
        self.offers = offers
        self.shut = 0

    async def get_events(self):
        return dict(self.offers)

    def is_inactive(self):
        return False

    def shutdown(self):
        self.shut += 1


def registry(f0: int, m0: int, f1: int, m1: int, f2: int, first: int) -> bool:
    """
    pre: 0 <= f0 <= 2 and 0 <= f1 <= 2 and 0 <= f2 <= 2
    pre: 1 <= m0 <= 3 and 1 <= m1 <= 3
    pre: 0 <= first <= 1
    post: _
    """
    begin()
    # One step of the worker's descriptor bookkeeping from a small arbitrary state: two works alive at once; each offers descriptors out
    # of {-1 (socket already closed but still reported), 7, 8}. Threadless._update_work_events documents that it tolerates -1 and a
    # number that is still registered for another work (KeyError from the selector). Whatever was offered, ending both works (in either
    # order) shuts each down exactly once, raises nothing, and leaves nothing registered.
    pool = [-1, 7, 8]
    fa = fb = fc = None
    for k in range(3):
        if f0 == k:
            fa = pool[k]
        if f1 == k:
            fb = pool[k]
        if f2 == k:
            fc = pool[k]
    for k in (1, 2, 3):
        if m0 == k:
            m0 = k
        if m1 == k:
            m1 = k
    with concrete():
        env = envkit.new_env()
        xk = envkit.Executor(scen.FLAGS['forward'], env)
    ex = xk.ex
    wa, wb = _StubWork({fa: m0, fc: m1}), _StubWork({fb: m1})
    ex.works[101] = wa
    ex.works[102] = wb
    try:
        run(ex._update_work_events(101))
        run(ex._update_work_events(102))
        run(ex._update_work_events(101))
    except Exception as e:
        return fail('exception while registering the descriptors two works offer', exc=repr(e), offers=repr((wa.offers, wb.offers)))
    order = [101, 102] if first == 0 else [102, 101]
    for wid in order:
        try:
            ex._cleanup(wid)
        except Exception as e:
            return fail('exception while a work is being released: it is never shut down and stays in the worker\'s bookkeeping',
                        exc=repr(e), work=wid, offers=repr((wa.offers, wb.offers)))
    if wa.shut != 1 or wb.shut != 1:
        return fail('work not shut down exactly once', shut=repr((wa.shut, wb.shut)))
    if ex.works or ex.registered_events_by_work_ids or ex.selector.map:
        return fail('something stayed registered after both works ended', works=repr(list(ex.works)),
                    registered=repr(ex.registered_events_by_work_ids), selector=repr(list(ex.selector.map)))
    return ok()


def obligations(tier):
    obs = []
    T = 400
    for role, script in SCRIPTS.items():
        n = len(script)
        obs.append({'name': 'release.%s.normal_idle' % role, 'fn': 'release',
                    'cfg': {'role': role, 'abort_at': 99, 'abort_side': 'client', 'abort_kind': 'eof', 'repeat': True}, 'timeout': T})
        for at in range(0, n + 1):
            for side in ('client', 'upstream'):
                for kind in ('eof', 'reset', 'epipe', 'eio', 'timeout', 'timeout_noerrno', 'garbage'):
                    if side == 'upstream' and role in ('web', 'web404', 'garbage'):
                        continue
                    if kind in ('timeout_noerrno', 'garbage') and (side != 'upstream' or at not in (1, 2)):
                        continue
                    if tier == 'quick' and kind in ('eio', 'timeout') and at not in (1, 2):
                        continue
                    if side == 'upstream' and at == 0:
                        continue
                    obs.append({'name': 'release.%s.%s_%s.at%d' % (role, side, kind, at), 'fn': 'release',
                                'cfg': {'role': role, 'abort_at': at, 'abort_side': side, 'abort_kind': kind,
                                        'repeat': (kind in ('eof', 'reset') and at in (1, 2))}, 'timeout': T})
        if role in ('forward', 'tunnel', 'reverse', 'reject'):
            for conn in ('refused', 'timeout', 'gaierror'):
                obs.append({'name': 'release.%s.connect_%s' % (role, conn), 'fn': 'release',
                            'cfg': {'role': role, 'abort_at': 99, 'abort_side': 'client', 'abort_kind': 'eof', 'connect': conn, 'repeat': True},
                            'timeout': T})
    obs.append({'name': 'admit_release.remote_tls', 'fn': 'admit_release', 'cfg': {}, 'timeout': T})
    obs.append({'name': 'registry.two_works', 'fn': 'registry', 'cfg': {}, 'timeout': 600, 'group': 'registry'})
    return obs


META = {
    'bounds': {
        'quick': 'one step of the descriptor bookkeeping (Threadless._update_work_events + _cleanup) with two works alive at once, each offering descriptors chosen by the solver from {-1, 7, 8} with symbolic masks, released in either order (all 486 combinations); otherwise '
                 'one connection at a time on a real executor; scripts: forward proxy with two keep-alive requests, CONNECT tunnel with data '
                 'both ways, web route with two requests, web 404, reverse proxy, garbage, a request (first / follow-up) rejected by a proxy plugin after the '
                 'upstream connection was made; every prefix of each script followed by an abort '
                 'on the client or upstream side in {EOF, reset, EPIPE on send, (EIO, timeout at steps 1-2)}; connect refusal / timeout / '
                 'resolution failure; connections no abort reaches end by the idle reaper under a jumped clock; one symbolic payload byte and '
                 'two symbolic fair short-write outcomes; selected histories run twice on the same executor; a remote executor behind a TLS listener: '
                 'admission failing in 5 ways, then an admitted connection: received descriptors os.close()d exactly once',
        'thorough': 'EIO and timeout aborts at every step',
    },
    'outside': 'real descriptors (/proc/<pid>/fd; os.close of a remote executor is a recorder), connection-pool '
               'mode (--enable-conn-pool), more than one connection at a time (see C05)',
    'stubs': ['FakeSocket / connect stub / FakeSelector(auto readiness) / FakeLoop / integer clock'],
}
