"""C20 — idle connections are reaped after the timeout and active ones never are.

Real code: HttpProtocolHandler.is_inactive/_connection_inactive_for/handle_readables/handle_writables/run/_run_once,
Threadless._cleanup_inactive/_cleanup/_run_forever (tick arithmetic), BaseTcpServerHandler.
"""
import argparse
import ast
import inspect
import textwrap

import z3

from proxy.common.flag import FlagParser
from proxy.core.work import threadless as TL
from proxy.core.work.fd.fd import ThreadlessFdExecutor
from proxy.http import handler as H

from vlib import envkit, kernel
from vlib.hk import CFG, begin, ok, fail, skip, B, run, cat, concrete

envkit.install()
FLAGS = FlagParser.initialize(['--threadless'])
FLAGS_T = FlagParser.initialize(['--threaded'])
# the proxy endpoint itself speaks TLS: initialize() replaces the handler's client connection object by the wrapped one
FLAGS_TLS = FlagParser.initialize(['--threadless', '--key-file', '/etc/p/key.pem', '--cert-file', '/etc/p/cert.pem'])


class _LoopShim:
    def run_until_complete(self, coro):
        return run(coro)

    def close(self):
        pass


class _AsyncioShim:
    @staticmethod
    def new_event_loop():
        return _LoopShim()


H.asyncio = _AsyncioShim


def _flags(base, timeout):
    ns = argparse.Namespace(**vars(base))
    ns.timeout = timeout
    return ns


def _tunnel(flags, env):
    """Concrete prefix: an established CONNECT tunnel with the acknowledgement flushed."""
    h, cs = envkit.make_handler(flags, env)
    cs.inq.append(b'CONNECT h.example:443 HTTP/1.1\r\n\r\n')
    run(h.handle_events([cs.fd], []))
    us = env.connects[0][1]
    run(h.handle_events([], [cs.fd]))
    return h, cs, us


def predicate(timeout: int, d0: int, d1: int, d2: int, d3: int, d4: int) -> bool:
    """
    pre: 1 <= timeout <= 86400
    pre: 0 <= d0 and 0 <= d1 and 0 <= d2 and 0 <= d3 and 0 <= d4
    pre: d0 <= 200000 and d1 <= 200000 and d2 <= 200000 and d3 <= 200000 and d4 <= 200000
    post: _
    """
    begin()
    trace = CFG['trace']         # letters: R client read, W client write-flush, U upstream data only, Q output queued, - nothing
    ds = [d0, d1, d2, d3, d4]
    with concrete():
        env = envkit.new_env()
        env.clock = 1000
        h, cs, us = _tunnel(_flags(FLAGS_TLS if CFG.get('tls') else FLAGS, 10), env)
    h.flags = _flags(FLAGS_TLS if CFG.get('tls') else FLAGS, timeout)
    last = env.clock             # last client-side activity (reference, computed from the trace)
    for i, e in enumerate(trace):
        env.clock = env.clock + ds[i]
        if e == 'R':
            cs.inq.append(b'x')
            if run(h.handle_events([cs.fd], [])):
                return fail('teardown on client data')
            last = env.clock
        elif e == 'W':
            if h.work.has_buffer():
                if run(h.handle_events([], [cs.fd])):
                    return fail('teardown on client flush')
                last = env.clock
            else:
                run(h.handle_events([], [cs.fd]))     # write-ready with nothing to write: not client traffic
        elif e == 'U':
            us.inq.append(b'y')
            if run(h.handle_events([us.fd], [])):
                return fail('teardown on upstream data')
        elif e == 'u':
            # upstream becomes write-ready and the proxy flushes to it: not client-side traffic either
            run(h.handle_events([], [us.fd]))
        elif e == 'Q':
            h.work.queue(memoryview(b'z'))
    env.clock = env.clock + ds[len(trace)]
    want = (not h.work.has_buffer()) and (env.clock - last > timeout)
    got = h.is_inactive()
    if got != want:
        return fail('is_inactive() differs from the idle predicate', got=got, want=want, now=env.clock, last=last,
                    pending=h.work.has_buffer())
    return ok()


class Exec(ThreadlessFdExecutor):
    def __init__(self, flags):
        super().__init__(iid='1', work_queue=None, flags=flags)
        self._l = envkit.FakeLoop()
        self.selector = envkit.FakeSelector()

    @property
    def loop(self):
        return self._l

    def receive_from_work_queue(self):
        return False

    def work_queue_fileno(self):
        return None


class _PendingTask:
    """A handle_events task that asyncio.wait() reported as not finished yet."""

    def __init__(self, work_id):
        self._work_id = work_id
        self.seq = 10 ** 6 + work_id

    def done(self):
        return False

    def cancel(self):
        return True

    def result(self):
        import asyncio
        raise asyncio.InvalidStateError('Result is not set.')


def reaper(timeout: int, a0: int, a1: int, now: int) -> bool:
    """
    pre: 1 <= timeout <= 86400
    pre: 0 <= a0 <= 200000 and 0 <= a1 <= 200000 and 0 <= now <= 400000
    post: _
    """
    begin()
    pend = CFG['pending']        # which of the two works has undelivered output
    with concrete():
        env = envkit.new_env()
        env.clock = 1000
        ex = Exec(_flags(FLAGS, 10))
        socks = [env.sock('c0'), env.sock('c1')]
        for i, s in enumerate(socks):
            ex.work(s.fd, ('10.0.0.%d' % i, 1), s)
        run(ex._run_once())
    ex.flags.timeout = timeout
    for w in ex.works.values():
        w.flags = ex.flags
    acts = [a0, a1]
    for i, s in enumerate(socks):
        ex.works[s.fd].last_activity = 1000 + acts[i]
        if pend[i]:
            ex.works[s.fd].work.queue(memoryview(b'p'))
    env.clock = 1000 + now
    if now < a0 or now < a1:
        return skip()
    inflight = CFG.get('inflight')
    if inflight:
        # asyncio.wait() may hand a task back as still pending (a handler that really awaits): it sits in `unfinished` while the worker
        # is quiet. The connection is judged by its own traffic; two sweeps with a quiet iteration in between bound the delay.
        for i, s in enumerate(socks):
            if inflight[i]:
                ex.unfinished.add(_PendingTask(s.fd))
    try:
        ex._cleanup_inactive()
        if inflight:
            run(ex._run_once())
            ex._cleanup_inactive()
    except Exception as e:
        return fail('_cleanup_inactive raised', exc=repr(e))
    for i, s in enumerate(socks):
        idle = (not pend[i]) and (now - acts[i] > timeout)
        if idle:
            if s.fd in ex.works or not s.closed:
                return fail('idle connection not reaped', i=i)
            if s.fd in ex.selector.map:
                return fail('reaped connection still registered with the selector', i=i)
        else:
            if s.fd not in ex.works or s.closed:
                return fail('connection reaped although it is not idle (recent traffic or pending output)', i=i, pending=pend[i])
    return ok()


class _Stop(Exception):
    pass


def threaded(timeout: int, e0: int, e1: int, e2: int) -> bool:
    """
    pre: 1 <= timeout <= 86400
    pre: 0 <= e0 <= 200000 and 0 <= e1 <= 200000 and 0 <= e2 <= 200000
    post: _
    """
    begin()
    # thread-per-connection driver: run() must leave exactly at the first iteration at which the predicate holds
    with concrete():
        env = envkit.new_env()
        env.clock = 1000
        h, cs = envkit.make_handler(_flags(FLAGS_T, 10), env)
    h.flags = _flags(FLAGS_T, timeout)
    steps = [e0, e1, e2]
    st = {'i': 0}
    sel = h.selector

    def select(timeout=None):
        # one loop iteration passes: the clock advances by a solver-chosen amount, nothing is ready
        i = st['i']
        if i >= len(steps):
            raise _Stop()
        env.clock = env.clock + steps[i]
        st['i'] = i + 1
        return []
    sel.select = select
    h.initialize = lambda: None
    h.run()
    # iterations completed before the loop left
    done = st['i']
    t = 1000
    expect = None
    for i in range(len(steps) + 1):
        if t - 1000 > timeout:
            expect = i
            break
        if i < len(steps):
            t = t + steps[i]
    if expect is None:
        if done != len(steps):
            return fail('loop left although the connection was never idle longer than the timeout', done=done)
    elif done != expect:
        return fail('loop did not leave at the first iteration where the idle predicate holds', done=done, expect=expect)
    if not cs.closed:
        return fail('client socket not closed after the loop left')
    return ok()


def k_tick(cfg, twin):
    """Reaper period from the real constants and the tick arithmetic of _run_forever (AST -> z3)."""
    src = textwrap.dedent(inspect.getsource(TL.Threadless._run_forever))
    tree = ast.parse(src).body[0]
    whiles = [n for n in ast.walk(tree) if isinstance(n, ast.While)]
    if len(whiles) != 1:
        return {'status': 'HARNESS_ERROR', 'message': '_run_forever: expected exactly one while loop'}
    body = whiles[0].body
    # drop the leading "if await self._run_once(): break"
    stmts = [s for s in body if not (isinstance(s, ast.If) and any(isinstance(n, ast.Await) for n in ast.walk(s.test)))]
    S = TL.DEFAULT_SELECTOR_SELECT_TIMEOUT
    ex = Exec(FLAGS)
    W, C = ex.wait_timeout, ex.cleanup_inactive_timeout
    # replace calls (cleanup / running.is_set / break) by a marker assignment understood by the interpreter
    class Rw(ast.NodeTransformer):
        def visit_Expr(self, node):
            if isinstance(node.value, ast.Call):
                return ast.copy_location(ast.Assign(targets=[ast.Name(id='fired', ctx=ast.Store())], value=ast.Constant(value=True)), node)
            return node

        def visit_If(self, node):
            self.generic_visit(node)
            if any(isinstance(n, ast.Call) for n in ast.walk(node.test)):
                return ast.copy_location(ast.Pass(), node)      # "if self.running.is_set(): break" (shutdown path)
            return node
    stmts = [ast.fix_missing_locations(Rw().visit(s)) for s in stmts]
    it = kernel.Interp(TL.Threadless._run_forever)
    period = 0
    while period * (S + W) < C:
        period += 1
    tick0 = z3.Int('tick0')
    env = {'self': {'wait_timeout': z3.RealVal(repr(W)) if False else W, 'cleanup_inactive_timeout': C}, 'tick': tick0, 'fired': False,
           'DEFAULT_SELECTOR_SELECT_TIMEOUT': S}
    fired_any = z3.BoolVal(False)
    inv = z3.And(tick0 >= 0, tick0 <= period)
    cases = 0
    for i in range(period + 1):
        env['fired'] = False
        r = it._block(stmts, env)
        f = env['fired']
        fired_any = z3.Or(fired_any, kernel._to_bool(f) if kernel._is_z3(f) else z3.BoolVal(bool(f)))
        cases += 1
        if i == 0:
            tick1 = env['tick']
    claim = z3.And(fired_any, tick1 >= 0, tick1 <= period)
    if twin:
        st, m = kernel.prove(z3.BoolVal(False), [inv])
        return {'status': 'REFUTED' if st == 'sat' else 'CONFIRMED', 'args': [0], 'cases': 1}
    st, m = kernel.prove(claim, [inv])
    if st == 'unsat':
        return {'status': 'CONFIRMED', 'cases': cases, 'validated': 0,
                'message': 'reaper fires within %d iterations from any tick in [0,%d]; S=%r W=%r C=%r' % (period + 1, period, S, W, C)}
    if st == 'sat':
        return {'status': 'REFUTED', 'args': [m.eval(tick0, model_completion=True).as_long()], 'message': 'tick arithmetic counterexample',
                'cases': cases}
    return {'status': 'UNKNOWN', 'message': str(m)}


def k_tick_replay(tick0):
    """Native twin of k_tick: emulate the loop body with the real constants."""
    begin()
    S = TL.DEFAULT_SELECTOR_SELECT_TIMEOUT
    ex = Exec(FLAGS)
    W, C = ex.wait_timeout, ex.cleanup_inactive_timeout
    period = 0
    while period * (S + W) < C:
        period += 1
    fired = []
    ex._cleanup_inactive = lambda: fired.append(1)
    calls = {'n': 0}

    async def once():
        calls['n'] += 1
        if calls['n'] > period + 1:
            raise _Stop()
        return False
    ex._run_once = once
    # cannot seed `tick` of the real coroutine; run it from 0 for period+1 iterations
    try:
        run(ex._run_forever())
    except _Stop:
        pass
    if not fired:
        return fail('reaper never ran within period+1 iterations', period=period)
    return ok()


def float_timeout(t10, idle10):
    """The embedding API takes the timeout as given (Proxy(timeout=1.9), FlagParser.initialize(timeout=...)): a connection idle for
    idle10/10 s is reaped iff idle10/10 > t10/10. Concrete execution with a fractional clock (NOT a solver claim: the symbolic
    obligations use an integer clock)."""
    begin()
    env = envkit.new_env()
    env.clock = 1000.0
    fl = FlagParser.initialize(['--threadless'], timeout=t10 / 10)
    xk = envkit.Executor(fl, env)
    cs = xk.accept('client')
    cs.inq.append(b'CONNECT h.example:443 HTTP/1.1\r\n\r\n')
    xk.step()
    xk.step()
    env.clock = 1000.0 + idle10 / 10
    xk.ex._cleanup_inactive()
    want = idle10 > t10
    if (cs.fd not in xk.ex.works) != want:
        return fail('connection idle for %.1fs with timeout %.1fs: reaped=%s' % (idle10 / 10, t10 / 10, cs.fd not in xk.ex.works))
    return ok()


def reaper_fires(pattern):
    """Real _run_forever + real _run_once on an executor holding one idle tunnel; per iteration the selector reports
    client data (busy) or nothing (idle) according to `pattern` (0 all idle, 1 all busy, 2 alternating, 3 busy bursts).
    The sweep must run within period+1 iterations whatever the load. Concrete execution (NOT a solver claim): the
    iteration count (~40) times a symbolic load bit per iteration is out of reach."""
    begin()
    S = TL.DEFAULT_SELECTOR_SELECT_TIMEOUT
    env = envkit.new_env()
    xk = envkit.Executor(_flags(FLAGS, 10), env)
    cs = xk.accept('client')
    ex = xk.ex
    cs.inq.append(b'CONNECT h.example:443 HTTP/1.1\r\n\r\n')
    xk.step()
    xk.step()
    W, C = ex.wait_timeout, ex.cleanup_inactive_timeout
    period = 0
    while period * (S + W) < C:
        period += 1
    fired = []
    real_cleanup = ex._cleanup_inactive
    ex._cleanup_inactive = lambda: (fired.append(st['n']), real_cleanup())
    st = {'n': 0}
    real_select = ex.selector.select

    def select(timeout=None):
        st['n'] += 1
        if st['n'] > period + 2:
            raise _Stop()
        n = st['n']
        busy = {0: False, 1: True, 2: n % 2 == 0, 3: n % 5 != 0}[pattern]
        if busy and not cs.closed:
            cs.inq.append(b'x')
        xk.sync()
        return real_select(timeout)
    ex.selector.select = select
    try:
        run(ex._run_forever())
    except _Stop:
        pass
    if not fired:
        return fail('the inactive-connection sweep did not run within period+1 iterations', period=period, pattern=pattern)
    return ok()


def obligations(tier):
    obs = []
    import itertools
    L = 3 if tier == 'quick' else 4
    letters = 'RWUQu-'
    traces = set()
    for t in itertools.product(letters, repeat=L):
        t = ''.join(t)
        traces.add(t)
    if tier == 'quick':
        # keep all traces of length <= 2 and the length-3 traces that mix a client event with queued output / upstream activity
        traces = set(''.join(t) for n in (0, 1, 2) for t in itertools.product(letters, repeat=n)) | \
            set(t for t in traces if ('Q' in t or 'U' in t) and ('R' in t or 'W' in t) and '-' not in t and 'u' not in t)
    for t in sorted(traces):
        obs.append({'name': 'predicate.%s' % (t or 'none'), 'fn': 'predicate', 'cfg': {'trace': t}, 'timeout': 200})
    for t in ('', 'Q', 'R', 'QW', 'RQ', 'UQ', 'QR', 'WQ') + (() if tier == 'quick' else ('RQW', 'QUW', 'QQ', 'UQR', 'RWQ')):
        obs.append({'name': 'predicate.tls_endpoint.%s' % (t or 'none'), 'fn': 'predicate', 'cfg': {'trace': t, 'tls': True}, 'timeout': 200})
    for pend in ([0, 0], [1, 0], [0, 1], [1, 1]):
        obs.append({'name': 'reaper.pending%d%d' % tuple(pend), 'fn': 'reaper', 'cfg': {'pending': pend}, 'timeout': 300})
    for infl in ([1, 0], [0, 1], [1, 1]):
        obs.append({'name': 'reaper.task_in_flight%d%d' % tuple(infl), 'fn': 'reaper', 'cfg': {'pending': [0, 0], 'inflight': infl}, 'timeout': 300})
    obs.append({'name': 'threaded.run', 'fn': 'threaded', 'cfg': {}, 'timeout': 300})
    obs.append({'name': 'concrete.float_timeout', 'kind': 'concrete', 'fn': 'float_timeout', 'cfg': {}, 'group': 'concrete',
                'args_list': [[19, 13], [19, 20], [19, 19], [5, 3], [5, 6], [100, 99], [100, 101], [25, 24], [25, 26]], 'timeout': 60})
    obs.append({'name': 'concrete.reaper_fires', 'kind': 'concrete', 'fn': 'reaper_fires', 'cfg': {}, 'group': 'concrete',
                'args_list': [[0], [1], [2], [3]], 'timeout': 120})
    obs.append({'name': 'kernel.tick', 'kind': 'smt', 'fn': 'k_tick', 'replay_fn': 'k_tick_replay', 'cfg': {}, 'timeout': 60, 'group': 'k_tick'})
    return obs


META = {
    'bounds': {
        'quick': 'predicate: timeout symbolic 1..86400, all traces of <=2 events and the mixed traces of 3 events over {client read, client '
                 'write-flush, upstream data, upstream flush, output queued, nothing} with symbolic non-negative integer clock increments before '
                 'each event and before the check (8 of these traces also on a TLS proxy endpoint, --key-file/--cert-file, where the handler swaps its client connection object); reaper: two works with symbolic last-activity times, symbolic now and timeout, each with or '
                 'without pending output, and with a handle_events task still reported pending by asyncio.wait (two sweeps, a quiet iteration between); threaded run(): 3 iterations with symbolic clock increments; tick kernel: any starting tick within '
                 'one period, period+1 iterations unrolled, constants read from the module',
        'thorough': 'all traces of 4 events',
    },
    'outside': 'IEEE-double rounding of now-last at the threshold (the clock is integer ticks here; CrossHair never reports float paths as '
               'exhaustive and the FP monotonicity lemma was intractable for z3 and cvc5), real time / sleeping, more than two works',
    'stubs': ['time.time -> integer Clock controlled by the harness', 'FakeSocket/FakeSelector/FakeLoop; asyncio.new_event_loop shim that '
              'drives the coroutine directly', 'selector.select stub that advances the clock by a solver-chosen amount per iteration'],
}
