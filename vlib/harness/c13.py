"""C13 — the static file server never serves anything outside its directory.

Real code: HttpWebServerPlugin.on_request_complete/_try_static_or_404,
HttpWebServerBasePlugin.serve_static_file, okResponse, HttpProtocolHandler.handle_data.
"""
import gzip

from proxy.common.flag import FlagParser
from proxy.http.server import plugin as SP
from proxy.http.responses import NOT_FOUND_RESPONSE_PKT

from vlib import envkit, refhttp
from vlib.hk import CFG, begin, ok, fail, skip, B, run, cat, concrete

envkit.install()
ROOT = '/srv/a'       # short name over the path alphabet, so that name-prefix siblings (/srv/ab, /srv/aa) are reachable
FLAGS = FlagParser.initialize(['--threadless', '--enable-web-server', '--enable-static-server', '--static-server-dir', ROOT,
                               '--disable-http-proxy', '--min-compression-length', '1000'])
FLAGS_TS = FlagParser.initialize(['--threadless', '--enable-web-server', '--enable-static-server', '--static-server-dir', ROOT + '/',
                                  '--disable-http-proxy', '--min-compression-length', '1000'])
FLAGS_GZ = FlagParser.initialize(['--threadless', '--enable-web-server', '--enable-static-server', '--static-server-dir', ROOT,
                                  '--disable-http-proxy', '--min-compression-length', '20'])
# the shipped dashboard plugin (a web-server plugin with routes below /dashboard/) next to the static server
FLAGS_DASH = FlagParser.initialize(['--threadless', '--enable-web-server', '--enable-static-server', '--static-server-dir', ROOT,
                                    '--disable-http-proxy', '--min-compression-length', '1000'], plugins=[b'proxy.dashboard.ProxyDashboard'])
BIG = b'IN-big:' + b'0123456789' * 4
FILES = {
    '/srv/a/a': b'IN-a', '/srv/a/b/a': b'IN-ba', '/srv/a/b/b': BIG, '/srv/a/e': b'',
    '/srv/a/z.gz': b'plain-bytes-that-only-carry-a-gz-suffix', '/srv/a/t.tgz': b'T' * 30, '/srv/a/i.svgz': b'<svg/>',
    '/srv/a/p.tar.gz': b'P' * 25, '/srv/a/n.txt': b'N' * 25,
    '/srv/ab/a': b'OUT-sibling-with-name-prefix', '/srv/aa': b'OUT-file-with-name-prefix', '/srv/a.b': b'OUT-dot-sibling',
    '/srv/b/a': b'OUT-srv-b-a', '/srv/e': b'OUT-srv-e', '/a': b'OUT-root-a', '/b/a': b'OUT-root-b-a', '/e': b'OUT-root-e', '/a/a': b'OUT-a-a',
}
NOT_FOUND = NOT_FOUND_RESPONSE_PKT.tobytes()
OPENED = []


def norm(p):
    """Independent dot-segment resolution (the oracle's idea of which file a path names)."""
    parts = []
    for seg in p.split('/'):
        if seg == '' or seg == '.':
            continue
        if seg == '..':
            if parts:
                parts.pop()
            continue
        parts.append(seg)
    return '/' + '/'.join(parts)


class _F:
    def __init__(self, data):
        self.data = data

    def read(self):
        return self.data

    def __enter__(self):
        return self

    def __exit__(self, *a):
        return False


def fake_open(path, mode='r'):
    n = norm(path)
    OPENED.append(n)
    for k in FILES:
        if n == k:
            return _F(FILES[k])
    if n in ('/srv/a', '/srv', '/', '/srv/a/b', '/srv/ab', '/srv/b', '/b', '/a'):
        raise IsADirectoryError(21, 'Is a directory', path)
    raise FileNotFoundError(2, 'No such file', path)


SP.open = fake_open
_REAL_GUESS = SP.mimetypes.guess_type
SP.mimetypes.guess_type = lambda p: ('text/plain', None)

ALPHA = (47, 46, 97, 98, 37, 50, 101, 63)      # / . a b % 2 e ?


def _serve(flags, path):
    with concrete():
        env = envkit.new_env()
        h, cs = envkit.make_handler(flags, env)
    cs.inq.append(b'GET ' + path + b' HTTP/1.1\r\nHost: x\r\n\r\n')
    td = run(h.handle_events([cs.fd], []))
    return h, cat(h.work.buffer), td


def static(c0: int, c1: int, c2: int, c3: int, c4: int, c5: int, c6: int, c7: int) -> bool:
    """
    pre: 33 <= c0 <= 126
    post: _
    """
    begin()
    n = CFG['n']
    if CFG.get('first') is not None:
        if c0 != CFG['first']:
            return skip()
    if CFG.get('second') is not None:
        if c1 != CFG['second']:
            return skip()
    cs_ = []
    for c in [c0, c1, c2, c3, c4, c5, c6, c7][:n]:
        k = None
        for a in ALPHA:             # alphabet / . a b % 2 e ? ; the ladder also makes the character concrete on this path
            if c == a:
                k = a
                break
        if k is None:
            return skip()
        cs_.append(k)
    fixed = CFG.get('prefix', '')
    path = b'/' + fixed.encode() + bytes(cs_)
    flags = FLAGS_TS if CFG.get('trailing_slash_root') else (FLAGS_GZ if CFG.get('gzip') else (FLAGS_DASH if CFG.get('dash') else FLAGS))
    del OPENED[:]
    try:
        h, out, td = _serve(flags, path)
    except Exception as e:
        return fail('exception left handle_events', exc=repr(e), path=repr(path))
    if not (td or h.must_flush_before_shutdown):
        return fail('static request neither answered-and-closed', path=repr(path))
    # the same request again, on a new connection of the same process: the answer does not depend on what was asked before
    try:
        h_b, out_b, td_b = _serve(flags, path)
    except Exception as e:
        return fail('exception left handle_events when the request is repeated', exc=repr(e), path=repr(path))
    if out_b[:60] != out[:60] or len(out_b) != len(out):
        return fail('the same request, repeated on a new connection, is answered differently', path=repr(path), first=repr(out[:40]),
                    again=repr(out_b[:40]))
    spath = path.decode()
    before_q = spath.split('?', 1)[0]
    if before_q.startswith('//'):
        return skip()     # '//x' is the scheme-less absolute form (host x): not a web-server path
    named = norm(ROOT + before_q)
    inside = named.startswith(ROOT + '/')
    if out == NOT_FOUND:
        if inside and named in FILES:
            return fail('file inside the static directory not served', path=repr(path), named=named)
        return ok()
    try:
        m = refhttp.read_message(out, True)
    except refhttp.Malformed as e:
        return fail('static response is malformed', why=str(e))
    if m['start'][1] != b'200':
        return fail('neither 200 nor the 404 packet', out=repr(out[:60]))
    if not inside:
        return fail('content served for a path that resolves outside the static directory', path=repr(path), named=named,
                    body=repr(m['body'][:20]))
    body = m['body']
    hs = {k: v for k, _, v in m['headers']}
    if hs.get(b'content-encoding') == b'gzip':
        body = gzip.decompress(body)
    if named not in FILES or body != FILES[named]:
        return fail('served content is not the content of the named file', named=named, body=repr(body[:20]))
    if m['remainder'] != b'':
        return fail('bytes after the response')
    # the query string never influences which file is chosen
    if '?' in spath:
        try:
            h2, out2, td2 = _serve(flags, before_q.encode())
        except Exception as e:
            return fail('exception without the query', exc=repr(e))
        if out2 != out and not (hs.get(b'content-encoding') == b'gzip' and out2[:60] == out[:60]):
            return fail('query string changed the outcome', path=repr(path))
    return ok()


def static_vec(*chars):
    from vlib import hk
    hk.CFG['n'] = len(chars)
    a = list(chars) + [0] * (8 - len(chars))
    return static(*a)


NAMED = ('n.txt', 'z.gz', 't.tgz', 'i.svgz', 'p.tar.gz', 'z.gz?x=1', 'n.txt')


def static_named(k):
    """Files whose NAME suggests an encoding (.gz, .tgz, .svgz): whatever Content-Encoding the reply announces, undoing it yields
    exactly the file's bytes. Real mimetypes table, compression on (min length 20); concrete execution (NOT a solver claim): names
    outside the 8-letter path alphabet of the symbolic obligations."""
    begin()
    SP.mimetypes.guess_type = _REAL_GUESS
    try:
        for i in range(k + 1):
            name = NAMED[i]
            h, out, td = _serve(FLAGS_GZ, b'/' + name.encode())
            try:
                m = refhttp.read_message(out, True)
            except refhttp.Malformed as e:
                return fail('reply for %s is malformed' % name, why=str(e))
            if m['start'][1] != b'200':
                return fail('file %s inside the static directory not served' % name, out=repr(out[:60]))
            body = m['body']
            hs = {kk: v for kk, _, v in m['headers']}
            if hs.get(b'content-encoding') == b'gzip':
                try:
                    body = gzip.decompress(body)
                except Exception as e:
                    return fail('reply for %s announces gzip but the body is not gzip' % name, exc=repr(e))
            want = FILES['/srv/a/' + name.split('?')[0]]
            if body != want:
                return fail('served bytes for %s do not decode to the file content' % name, got=repr(body[:30]), want=repr(want[:30]))
    finally:
        SP.mimetypes.guess_type = lambda p: ('text/plain', None)
    return ok()


GZIP_SEQ = ('b/b', 'b/b?', 'b/a', '../a', '../ab/a', 'b/..', 'a?b/b', './b/b', 'b/./b', 'b//b?x', 'a', 'b/b', 'e', 'b/a')


def static_seq(k):
    """Serves GZIP_SEQ[0..k] in order in one process (a large compressible file before small ones of the same type, ...) and checks
    the last one: what one request leaves behind must not change the answer to the next. Replayed as the same sequence."""
    r = True
    for i in range(k + 1):
        r = static_vec(*[ord(c) for c in GZIP_SEQ[i]])
        if i < k and not r:
            return True      # an earlier element fails: reported by the obligation instance that ends there
    return r


def obligations(tier):
    obs = []
    n = 5 if tier == 'quick' else 6
    # case split on the first character to spread the work over the cores
    for first in ALPHA[1:]:      # a path starting with '//' is the scheme-less absolute form, not a web-server path
        for second in ALPHA:      # (split on the first two characters: 56 obligations keep all cores busy)
            nm = lambda c: chr(c) if c != 47 else 'slash'
            obs.append({'name': 'static.n%d.first%s.second%s' % (n, nm(first), nm(second)), 'fn': 'static',
                        'cfg': {'n': n, 'first': first, 'second': second}, 'timeout': 900 if tier == 'quick' else 3000})
    # deeper traversal shapes with a concrete prefix
    for prefix in ('../', '../a', '../ab', 'b/../', 'b/..', './.', '..%2e/', '%2e%2e/', 'a/../../', 'b/a/../..', '../../'):
        m = 3 if tier == 'quick' else 4
        obs.append({'name': 'static.prefix[%s].n%d' % (prefix.replace('/', '|'), m), 'fn': 'static',
                    'cfg': {'n': m, 'prefix': prefix}, 'timeout': 600})
    # with the dashboard plugin loaded: paths whose first segment is one of its routes still never leave the static directory
    for prefix in ('dashboard/../', 'dashboard/../../', 'dashboard/a/../../../', 'dashboard//../'):
        obs.append({'name': 'static.dashboard.prefix[%s].n3' % prefix.replace('/', '|'), 'fn': 'static',
                    'cfg': {'n': 3, 'prefix': prefix, 'dash': True}, 'timeout': 600})
    # compressed replies: zlib is C code and gzip misbehaves under opcode tracing -> concrete vectors, natively (NOT a solver claim)
    vec = [[ord(c) for c in p] + [0] * (8 - len(p)) for p in ('b/b', 'b/b?', 'b/a', '../a', 'b/..', 'a?b/b', './b/b', 'b/./b')]
    for v in vec:
        ln = 8 - v[::-1].index(0) if 0 in v else 8
    obs.append({'name': 'concrete.gzip', 'kind': 'concrete', 'fn': 'static_seq', 'cfg': {'gzip': True}, 'group': 'concrete',
                'args_list': [[k] for k in range(len(GZIP_SEQ))], 'timeout': 60})
    obs.append({'name': 'concrete.named', 'kind': 'concrete', 'fn': 'static_named', 'cfg': {}, 'group': 'concrete',
                'args_list': [[k] for k in range(len(NAMED))], 'timeout': 60})
    obs.append({'name': 'static.trailing_slash_root.n3', 'fn': 'static', 'cfg': {'n': 3, 'trailing_slash_root': True}, 'timeout': 900})
    return obs


META = {
    'bounds': {
        'quick': 'request path = "/" + 5 symbolic characters over {/ . a b % 2 e ?} (32768 strings; a solver-decided ladder fixes each character per path), plus 8 concrete '
                 'traversal prefixes followed by 3 symbolic characters (4 of them below /dashboard/ with the shipped dashboard plugin loaded); static root with and without trailing slash; file tree with files '
                 'inside the root, in sibling entries sharing the root\'s name prefix (/srv/ab/, /srv/aa, /srv/a.b), and one and two levels above',
        'thorough': '6 symbolic characters (262144 strings) and 4 after each prefix',
    },
    'outside': 'symlinks; non-ASCII paths; other characters than the 8-letter alphabet; gzip of symbolic content (files are concrete: '
               'lengths 0, 4, 5 and 47 so that the compressed branch is taken once); percent-decoding is not performed by the server, so %2e is '
               'an ordinary file-name character',
    'stubs': ['open() inside proxy.http.server.plugin replaced by FakeFS resolving paths with an independent normaliser against a concrete tree',
              'mimetypes.guess_type constant', 'os.path.normpath modelled in pure Python for symbolic strings (validated against the real one '
              'on all strings over {/ . a} up to length 7 each run)', 'FakeSocket client'],
}
