"""C11 — TLS interception issues a per-host certificate and never trusts a bad upstream
(claimed for the POLICY WIRING only: the TLS library and certificate generation are stubbed).

Real code: HttpProxyPlugin.on_request_complete/intercept/wrap_server/wrap_client/_tls_intercept_enabled/
generate_upstream_certificate/gen_ca_signed_certificate (argument construction), TcpServerConnection.wrap,
TcpClientConnection.wrap, HttpProxyPlugin.on_client_data (decrypted follow-up requests).
"""
import ssl

from proxy.common.flag import FlagParser
from proxy.core.connection import client as _cli
from proxy.core.connection import server as _srv
from proxy.http.proxy import HttpProxyBasePlugin
from proxy.http.proxy import server as PS
from proxy.http.responses import PROXY_TUNNEL_ESTABLISHED_RESPONSE_PKT

from vlib import envkit
from vlib.hk import CFG, begin, ok, fail, skip, B, run, cat, concrete

envkit.install()
ACK = PROXY_TUNNEL_ESTABLISHED_RESPONSE_PKT.tobytes()
REC = {'ctx': [], 'pki': [], 'isfile': []}
OUTCOME = {'server': 'ok', 'client': 'ok', 'cache': 0, 'do_intercept': True}


class FakeSSLSocket(ssl.SSLSocket):
    """Instance of the real ssl.SSLSocket type (the code asserts isinstance) delegating to a FakeSocket."""

    def __init__(self, inner, side):      # noqa: deliberately not calling SSLSocket.__init__
        self._inner = inner
        self.side = side

    def fileno(self):
        return self._inner.fileno()

    def send(self, data, flags=0):
        return self._inner.send(data)

    def recv(self, n=1024, flags=0):
        return self._inner.recv(n)

    def recv_into(self, buffer, nbytes=0, flags=0):
        return self._inner.recv_into(buffer, nbytes)

    def close(self):
        return self._inner.close()

    def shutdown(self, how):
        return self._inner.shutdown(how)

    def setblocking(self, b):
        return self._inner.setblocking(b)

    def settimeout(self, t):
        pass

    def getpeercert(self, binary_form=False):
        return b'DER' if binary_form else {}

    def unwrap(self):
        return self._inner

    def __del__(self):
        pass


import socket as _socket


class FakeTcpSocket(_socket.socket):
    """Instance of the real socket.socket type (wrap_server asserts isinstance) delegating to a FakeSocket."""

    def __init__(self, inner):      # noqa: deliberately not calling socket.__init__
        self._inner = inner

    def fileno(self):
        return self._inner.fileno()

    def send(self, data, flags=0):
        return self._inner.send(data)

    def recv(self, n=1024, flags=0):
        return self._inner.recv(n)

    def recv_into(self, buffer, nbytes=0, flags=0):
        return self._inner.recv_into(buffer, nbytes)

    def close(self):
        return self._inner.close()

    def shutdown(self, how):
        return self._inner.shutdown(how)

    def setblocking(self, b):
        return self._inner.setblocking(b)

    def settimeout(self, t):
        pass

    def __del__(self):
        pass


class _Ctx:
    def __init__(self, kind, **kw):
        self.kind = kind
        self.kw = kw
        self.options = 0
        self.check_hostname = None
        self.verify_mode = None
        self.chain = None
        REC['ctx'].append(self)

    def load_cert_chain(self, certfile=None, keyfile=None):
        self.chain = (certfile, keyfile)

    def wrap_socket(self, sock, server_hostname=None, server_side=False):
        self.server_hostname = server_hostname
        self.server_side = server_side
        which = 'client' if server_side else 'server'
        o = OUTCOME[which]
        if o == 'verify':
            raise ssl.SSLCertVerificationError(1, 'certificate verify failed')
        if o == 'sslerror':
            e = ssl.SSLError(1, 'handshake failure')
            e.reason = 'SSLV3_ALERT_HANDSHAKE_FAILURE'
            raise e
        if o == 'eof':
            raise ssl.SSLEOFError(8, 'EOF occurred in violation of protocol')
        if o == 'pipe':
            raise BrokenPipeError(32, 'broken pipe')
        return FakeSSLSocket(getattr(sock, '_inner', sock), which)


class _SslShim:
    """What proxy.core.connection.{server,client} see as `ssl`: real constants, recording contexts."""
    Purpose = ssl.Purpose
    VerifyMode = ssl.VerifyMode
    PROTOCOL_TLS_CLIENT = ssl.PROTOCOL_TLS_CLIENT
    PROTOCOL_TLS_SERVER = ssl.PROTOCOL_TLS_SERVER
    CERT_NONE = ssl.CERT_NONE
    SSLSocket = ssl.SSLSocket

    @staticmethod
    def create_default_context(purpose=None, cafile=None):
        return _Ctx('default', purpose=purpose, cafile=cafile)

    @staticmethod
    def SSLContext(protocol=None):
        return _Ctx('plain', protocol=protocol)


_srv.ssl = _SslShim
_cli.ssl = _SslShim


def _pki(name):
    def f(**kw):
        REC['pki'].append((name, kw))
        if OUTCOME.get('pki_fail') == name:
            return False        # openssl helper failed
        return True
    return f


PS.gen_public_key = _pki('gen_public_key')
PS.gen_csr = _pki('gen_csr')
PS.sign_csr = _pki('sign_csr')
PS.cert_der_to_dict = lambda der: {'subject': ((('commonName', 'upstream-cn'),), (('organizationName', 'Org'),))}


class _Path:
    @staticmethod
    def join(*a):
        return '/'.join(a)

    @staticmethod
    def isfile(p):
        REC['isfile'].append(p)
        # cache bits: 1 leaf cert present, 2 public key present, 4 csr present
        c = OUTCOME['cache']
        if p.endswith('.pem'):
            return bool(c & 1)
        if p.endswith('.pub'):
            return bool(c & 2)
        if p.endswith('.csr'):
            return bool(c & 4)
        return False


class _OsShim:
    path = _Path

    @staticmethod
    def getpid():
        return 77


PS.os = _OsShim


class OptOut(HttpProxyBasePlugin):
    def do_intercept(self, request):
        return OUTCOME['do_intercept']


class Bystander(HttpProxyBasePlugin):
    """A second plugin with the default do_intercept (True), configured AFTER the one that may opt out."""


class Bystander0(HttpProxyBasePlugin):
    """... and one configured BEFORE it."""


_TLS = ['--threadless', '--ca-key-file', '/ca/key.pem', '--ca-cert-file', '/ca/cert.pem', '--ca-signing-key-file', '/ca/signing.pem',
        '--ca-cert-dir', '/ca/cache', '--ca-file', '/ca/bundle.pem']
FL = {
    False: FlagParser.initialize(_TLS, plugins=[OptOut]),
    True: FlagParser.initialize(_TLS + ['--insecure-tls-interception'], plugins=[OptOut]),
    # the opting-out plugin between two plugins that leave do_intercept at its default: one "no" is enough, wherever it stands
    'three': FlagParser.initialize(_TLS, plugins=[Bystander0, OptOut, Bystander]),
    'three_insecure': FlagParser.initialize(_TLS + ['--insecure-tls-interception'], plugins=[Bystander0, OptOut, Bystander]),
}
S_OUT = ['ok', 'verify', 'sslerror']
C_OUT = ['ok', 'verify', 'sslerror', 'eof', 'pipe']


def us_out_after_failure(env):
    for a, s_ in env.connects:
        inner = getattr(s_, '_inner', s_)
        if not isinstance(inner, BaseException) and inner.out != b'':
            return True
    return False


def intercept(h0: int, h1: int, so: int, co: int, cache: int, di: int, d0: int) -> bool:
    """
    pre: 97 <= h0 <= 122 and 97 <= h1 <= 122
    pre: 0 <= so <= 2 and 0 <= co <= 4 and 0 <= cache <= 7 and 0 <= di <= 1
    pre: 0 <= d0 < 256
    post: _
    """
    begin()
    insecure = CFG['insecure']
    for nm, val in (('so', so), ('co', co), ('di', di)):
        if nm in CFG and val != CFG[nm]:
            return skip()
    so, co, di = CFG.get('so', so), CFG.get('co', co), CFG.get('di', di)
    for k in range(8):
        if cache == k:
            cache = k
            break
    OUTCOME.update({'server': S_OUT[so], 'client': C_OUT[co], 'cache': cache, 'do_intercept': bool(di), 'pki_fail': CFG.get('pki_fail')})
    REC['ctx'][:] = []
    REC['pki'][:] = []
    REC['isfile'][:] = []
    hk_ = CFG.get('hostkind', 'name')
    if hk_ == 'name':
        host = B(h0, h1) + b'.example'
    elif hk_ == 'v4':
        host = b'10.0.0.' + B(48 + (h0 % 10))
    else:
        host = b'[2001:db8::' + B(48 + (h0 % 10)) + b']'
    with concrete():
        env = envkit.new_env()
        env.upstream_factory = lambda addr: FakeTcpSocket(env.sock('upstream'))
        h, cs = envkit.make_handler(FL[('three_insecure' if insecure else 'three') if CFG.get('three') else insecure], env)
    cs.inq.append(b'CONNECT ' + host + b':443 HTTP/1.1\r\n\r\n')
    try:
        td = run(h.handle_events([cs.fd], []))
    except Exception as e:
        import os, traceback
        if os.environ.get('VERIF_DEBUG_FAIL'):
            traceback.print_exc()
        if CFG.get('pki_fail'):
            # a failed certificate generation may end this connection in any way, but must not wedge the process-wide lock
            if PS.HttpProxyPlugin.lock.locked():
                return fail('certificate-generation lock still held after a failed generation: the next intercepted CONNECT blocks forever')
            if us_out_after_failure(env):
                return fail('bytes sent upstream although certificate generation failed')
            return ok()
        return fail('exception left handle_events', exc=repr(e))
    if CFG.get('pki_fail') and PS.HttpProxyPlugin.lock.locked():
        return fail('certificate-generation lock still held after a failed generation: the next intercepted CONNECT blocks forever')
    closing = bool(td) or h.must_flush_before_shutdown
    if len(env.connects) != 1:
        return fail('not exactly one upstream connection')
    us = env.connects[0][1]._inner
    hs = host.decode()
    if env.connects[0][0] != (hs, 443):
        return fail('connected elsewhere', got=repr(env.connects[0][0]))
    sctx = [c for c in REC['ctx'] if c.kind == 'default']
    cctx = [c for c in REC['ctx'] if c.kind == 'plain']
    if not di:
        # per-request opt-out: opaque tunnel, no TLS on either side, bytes relayed verbatim
        if REC['ctx'] or REC['pki']:
            return fail('TLS machinery used although a plugin opted out of interception')
        if closing or cs.out + cat(h.work.buffer) != ACK:
            return fail('opt-out tunnel not acknowledged', out=repr(cs.out))
        run(h.handle_events([], [cs.fd]))
        payload = b'\x16\x03\x01' + B(d0)
        cs.inq.append(payload)
        run(h.handle_events([cs.fd], []))
        if envkit.pending(h.plugin.upstream) != payload:
            return fail('opt-out tunnel does not relay client bytes verbatim', got=repr(envkit.pending(h.plugin.upstream)))
        # opaque bytes that are not HTTP-shaped (a TLS record containing CR LF): must be relayed, never parsed
        back = b'\x16\x03\x03' + B(d0) + b'\r\nxy\r\n\r\n' + B(d0)
        us.inq.append(back)
        try:
            td2 = run(h.handle_events([us.fd], []))
        except Exception as e:
            return fail('opt-out tunnel: upstream bytes made the proxy raise (they were parsed instead of relayed)', exc=repr(e))
        if td2 or cs.out + cat(h.work.buffer) != ACK + back:
            return fail('opt-out tunnel does not relay upstream bytes verbatim')
        return ok()
    # upstream handshake policy
    if len(sctx) != 1:
        return fail('upstream TLS context not created exactly once', n=len(sctx))
    c = sctx[0]
    if c.server_hostname != hs:
        return fail('upstream server_hostname is not the CONNECT host', got=repr(c.server_hostname))
    if c.kw.get('cafile') != '/ca/bundle.pem' or c.kw.get('purpose') != ssl.Purpose.SERVER_AUTH:
        return fail('upstream context not built from the configured trust store', kw=repr(c.kw))
    if insecure:
        if c.verify_mode != ssl.VerifyMode.CERT_NONE:
            return fail('insecure switch on but verification not disabled')
    else:
        if c.verify_mode != ssl.VerifyMode.CERT_REQUIRED or c.check_hostname is not True:
            return fail('upstream certificate or host name verification not required', vm=repr(c.verify_mode), ch=repr(c.check_hostname))
    data_to_client = (cs.out + cat(h.work.buffer))
    if S_OUT[so] != 'ok':
        # bad upstream: nothing but the acknowledgement may ever go to the client, nothing to the upstream, connection ends
        if not closing:
            return fail('connection kept although the upstream handshake failed')
        if data_to_client != ACK:
            return fail('bytes other than the acknowledgement sent to the client after a failed upstream handshake', got=repr(data_to_client))
        if us.out != b'' or envkit.pending(h.plugin.upstream) != b'':
            return fail('application bytes sent to an unverified upstream')
        if cctx or REC['pki']:
            return fail('client-side certificate work done although the upstream was not verified')
        return ok()
    # leaf certificate request
    want_cert = '/ca/cache/%s.pem' % hs
    if REC['isfile'][0] != want_cert:
        return fail('certificate cache looked up under a different name', got=repr(REC['isfile'][:1]))
    if not (cache & 1):
        names = [n for n, kw in REC['pki']]
        exp_names = ([] if cache & 2 else ['gen_public_key']) + ([] if cache & 4 else ['gen_csr']) + ['sign_csr']
        if names != exp_names:
            return fail('certificate generation steps differ', got=repr(names), want=repr(exp_names))
        for n, kw in REC['pki']:
            if n in ('gen_public_key', 'sign_csr') and kw.get('alt_subj_names') != [hs]:
                return fail('generated certificate does not name the CONNECT host', step=n, san=repr(kw.get('alt_subj_names')))
            if n == 'sign_csr':
                if kw.get('ca_key_path') != '/ca/key.pem' or kw.get('ca_crt_path') != '/ca/cert.pem' or kw.get('crt_path') != want_cert:
                    return fail('leaf not signed with the configured CA / stored elsewhere', kw=repr(kw))
            if n in ('gen_public_key', 'gen_csr') and (kw.get('private_key_path', kw.get('key_path')) != '/ca/signing.pem'):
                return fail('leaf key is not the configured signing key', kw=repr(kw))
    elif REC['pki']:
        return fail('certificate regenerated although cached')
    if len(cctx) != 1 or cctx[0].chain != (want_cert, '/ca/signing.pem') or cctx[0].server_side is not True:
        return fail('client-side TLS not set up with the generated certificate', ctx=repr([(x.chain, getattr(x, 'server_side', None)) for x in cctx]))
    if cs.out != ACK:
        return fail('acknowledgement not flushed in clear before the client-side handshake', out=repr(cs.out))
    if C_OUT[co] != 'ok':
        if not closing:
            return fail('connection kept although the client-side handshake failed')
        if us.out != b'' or envkit.pending(h.plugin.upstream) != b'':
            return fail('bytes sent upstream although the client handshake failed')
        return ok()
    if closing:
        return fail('interception torn down although both handshakes succeeded')
    if not isinstance(h.work.connection, FakeSSLSocket) or h.work.connection.side != 'client':
        return fail('client connection not switched to the TLS session')
    if not isinstance(h.plugin.upstream.connection, FakeSSLSocket):
        return fail('upstream connection not switched to the TLS session')
    # decrypted follow-up request is parsed and forwarded over the verified session
    if CFG.get('want_read'):
        # the TLS layer has only part of a record: recv() raises SSLWantReadError on either side; that means "try again later", the
        # session goes on
        cs.inq.append(ssl.SSLWantReadError(2, 'The operation did not complete (read)'))
        us.inq.append(ssl.SSLWantReadError(2, 'The operation did not complete (read)'))
        try:
            td = run(h.handle_events([cs.fd, us.fd], []))
        except Exception as e:
            return fail('SSLWantReadError left handle_events', exc=repr(e))
        if td:
            return fail('intercepted session torn down on SSLWantReadError (an incomplete TLS record)')
    req = b'GET /s' + B(d0 % 26 + 97) + b' HTTP/1.1\r\nHost: ' + host + b'\r\n\r\n'
    cs.inq.append(req)
    try:
        td = run(h.handle_events([cs.fd], []))
    except Exception as e:
        return fail('exception on the decrypted request', exc=repr(e))
    if td:
        return fail('teardown on the decrypted request')
    if envkit.pending(h.plugin.upstream) != req:
        return fail('decrypted request not forwarded intact', got=repr(envkit.pending(h.plugin.upstream)))
    resp = b'HTTP/1.1 200 OK\r\nContent-Length: 1\r\n\r\n' + B(d0)
    us.inq.append(resp)
    run(h.handle_events([us.fd], []))
    if cat(h.work.buffer) != resp:
        return fail('response not returned intact', got=repr(cat(h.work.buffer)))
    return ok()


def obligations(tier):
    obs = []
    for insecure in (False, True):
        for so in (0, 1, 2):
            for di in (0, 1):
                if di == 0 and so != 0:
                    continue
                cos = (0, 1, 2, 3, 4) if (so == 0 and di == 1) else (0,)
                for co in cos:
                    obs.append({'name': 'intercept.%s.server_%s.client_%s.%s' % ('insecure' if insecure else 'verify', S_OUT[so], C_OUT[co],
                                                                               'intercept' if di else 'optout'), 'fn': 'intercept',
                                'cfg': {'insecure': insecure, 'so': so, 'co': co, 'di': di}, 'timeout': 400})
    for hkind in ('v4', 'v6'):
        for insecure in (False, True):
            for so in (0, 1):
                obs.append({'name': 'intercept.%s.%s.server_%s' % (hkind, 'insecure' if insecure else 'verify', S_OUT[so]), 'fn': 'intercept',
                            'cfg': {'insecure': insecure, 'so': so, 'co': 0, 'di': 1, 'hostkind': hkind}, 'timeout': 400})
    for di in (0, 1):
        obs.append({'name': 'intercept.verify.three_plugins.%s' % ('intercept' if di else 'optout'), 'fn': 'intercept',
                    'cfg': {'insecure': False, 'so': 0, 'co': 0, 'di': di, 'three': True}, 'timeout': 400})
    for insecure in (False, True):
        obs.append({'name': 'intercept.%s.want_read' % ('insecure' if insecure else 'verify'), 'fn': 'intercept',
                    'cfg': {'insecure': insecure, 'so': 0, 'co': 0, 'di': 1, 'want_read': True}, 'timeout': 400})
    for step in ('gen_public_key', 'gen_csr', 'sign_csr'):
        obs.append({'name': 'intercept.pki_fail.%s' % step, 'fn': 'intercept',
                    'cfg': {'insecure': False, 'so': 0, 'co': 0, 'di': 1, 'pki_fail': step}, 'timeout': 400})
    if tier == 'thorough':
        # full product of the dimensions the quick tier samples pairwise
        seen = {tuple(sorted(o['cfg'].items())) for o in obs}
        for hkind in ('name', 'v4', 'v6'):
            for insecure in (False, True):
                for three in (False, True):
                    for so in (0, 1, 2):
                        for di in (0, 1):
                            if di == 0 and so != 0:
                                continue
                            for co in ((0, 1, 2, 3, 4) if (so == 0 and di == 1) else (0,)):
                                for wr in ((False, True) if (so == 0 and di == 1 and co == 0) else (False,)):
                                    cfg = {'insecure': insecure, 'so': so, 'co': co, 'di': di}
                                    if hkind != 'name':
                                        cfg['hostkind'] = hkind
                                    if three:
                                        cfg['three'] = True
                                    if wr:
                                        cfg['want_read'] = True
                                    k = tuple(sorted(cfg.items()))
                                    if k in seen:
                                        continue
                                    seen.add(k)
                                    obs.append({'name': 'intercept.x.%s.%s.%s.server_%s.client_%s.%s%s' % (
                                        hkind, 'insecure' if insecure else 'verify', 'three' if three else 'one', S_OUT[so], C_OUT[co],
                                        'intercept' if di else 'optout', '.want_read' if wr else ''), 'fn': 'intercept', 'cfg': cfg, 'timeout': 600})
                for step in ('gen_public_key', 'gen_csr', 'sign_csr'):
                    if hkind == 'name' and not insecure:
                        continue
                    cfg = {'insecure': insecure, 'so': 0, 'co': 0, 'di': 1, 'pki_fail': step}
                    if hkind != 'name':
                        cfg['hostkind'] = hkind
                    obs.append({'name': 'intercept.x.pki_fail.%s.%s.%s' % (step, hkind, 'insecure' if insecure else 'verify'), 'fn': 'intercept',
                                'cfg': cfg, 'timeout': 600})
    return obs


META = {
    'bounds': {
        'quick': 'CONNECT host: name with 2 symbolic letters, IPv4 and bracketed IPv6 literals with a symbolic digit; a failing openssl helper at each of the 3 generation steps (lock must be released); upstream handshake outcome {ok, certificate verification error, other SSL error}; '
                 'client-side handshake outcome {ok, verification error, SSL error, EOF, broken pipe}; --insecure-tls-interception on/off; a '
                 'plugin\'s do_intercept on/off (alone, and between two plugins with the default answer); certificate cache state symbolic (8 combinations of leaf/public key/CSR present); one symbolic '
                 'payload byte; SSLWantReadError (incomplete record) on both sides of an established intercepted session',
        'thorough': 'same symbolic parameters, over the full product host kind {name, IPv4, IPv6} x insecure switch x {one, three} plugins x upstream handshake outcome x '
                    'client handshake outcome x opt-out x SSLWantReadError, and a failing generation step for every host kind and both settings of the switch',
    },
    'outside': 'NOT ENCODABLE, outside the claim: that OpenSSL actually verifies the upstream chain/name, that the generated leaf really chains '
               'to the CA (openssl subprocesses are stubbed to record their arguments), real handshakes, expiry, disk cache contents. Claimed: '
               'the policy wiring (verify mode, check_hostname, server_hostname, trust store, SAN/CA/key arguments, ordering, no data after a '
               'failed handshake, opt-out = opaque tunnel, decrypted requests forwarded over the verified session).',
    'stubs': ['ssl module inside proxy.core.connection.{server,client}: recording contexts whose wrap_socket returns a FakeSSLSocket or raises '
              'the scripted error', 'gen_public_key/gen_csr/sign_csr/cert_der_to_dict and os.path.isfile inside proxy.http.proxy.server',
              'FakeSocket, connect stub'],
}
