"""C06 — any input yields service, a well-formed error response, or a clean close.

Real code: HttpProtocolHandler.handle_data/_parse_first_request/_discover_plugin_klass, HttpParser.*, Url.*,
build_http_response/build_http_pkt, okResponse/permanentRedirectResponse/seeOthersResponse, canned packets in
responses.py, HttpRequestRejected/ProxyAuthenticationFailed/ProxyConnectionFailed.response.
"""
import gzip

from proxy.common.flag import FlagParser
from proxy.common.utils import build_http_response
from proxy.http import responses as R
from proxy.http.exception import HttpRequestRejected

from vlib import envkit, refhttp, scen
from vlib.hk import CFG, begin, ok, fail, skip, B, run, cat, concrete

envkit.install()
FLAGS_P = FlagParser.initialize(['--threadless'])
FLAGS_W = FlagParser.initialize(['--threadless', '--enable-web-server', '--disable-http-proxy'])
FLAGS_PW = FlagParser.initialize(['--threadless', '--enable-web-server'])
CANNED = None


def _canned():
    global CANNED
    if CANNED is None:
        CANNED = [getattr(R, k).tobytes() for k in dir(R) if k.endswith('_PKT') or k == 'PROXY_TUNNEL_UNSUPPORTED_SCHEME']
    return CANNED


def _message(tpl, s):
    """Input bytes for template `tpl` with symbolic bytes s[0..5]."""
    if tpl == 'method':
        return B(s[0], s[1], s[2]) + b' http://h.example/ HTTP/1.1\r\nHost: h.example\r\n\r\n'
    if tpl == 'target':
        return b'GET ' + B(s[0], s[1], s[2], s[3]) + b' HTTP/1.1\r\nHost: h.example\r\n\r\n'
    if tpl == 'target_abs':
        return b'GET http://' + B(s[0], s[1], s[2]) + b' HTTP/1.1\r\n\r\n'
    if tpl == 'connect':
        return b'CONNECT ' + B(s[0], s[1], s[2], s[3]) + b' HTTP/1.1\r\n\r\n'
    if tpl == 'version':
        return b'GET http://h.example/ HTTP/' + B(s[0], s[1], s[2]) + b'\r\nHost: h.example\r\n\r\n'
    if tpl == 'header':
        if CFG.get('wide'):
            return b'GET http://h/ HTTP/1.1\r\n' + B(s[0], s[1]) + b':' + B(s[2]) + b'\r\n\r\n'
        return b'GET http://h/ HTTP/1.1\r\nA' + B(s[0]) + b':' + B(s[2]) + b'\r\n\r\n'
    if tpl == 'clen':
        return b'POST http://h/ HTTP/1.1\r\nContent-Length: ' + B(s[0], s[1], s[2]) + b'\r\n\r\nab'
    if tpl == 'tenc':
        return b'POST http://h/ HTTP/1.1\r\nTransfer-Encoding: chunked\r\n\r\n' + B(s[0], s[1]) + b'\r\nab\r\n0\r\n\r\n'
    if tpl == 'raw4':
        return B(s[0], s[1], s[2], s[3])
    if tpl == 'raw4_end':
        return B(s[0], s[1], s[2], s[3]) + b'\r\n\r\n'
    if tpl == 'line_raw':
        return B(s[0], s[1]) + b' ' + B(s[2]) + b' ' + B(s[3], s[4]) + b'\r\n\r\n'
    if tpl == 'truncated':
        return (b'GET http://h.example/' + B(s[0]) + b' HTTP/1.1\r\nHost: h.example\r\n\r\n')[:CFG['trunc']]
    if tpl == 'web_path':
        return b'GET /' + B(s[0], s[1], s[2]) + b' HTTP/1.1\r\nHost: x\r\n\r\n'
    raise ValueError(tpl)


def totality(s0: int, s1: int, s2: int, s3: int, s4: int, c: int) -> bool:
    """
    pre: 0 <= s0 < 256 and 0 <= s1 < 256 and 0 <= s2 < 256 and 0 <= s3 < 256 and 0 <= s4 < 256
    pre: 0 <= c <= 1
    post: _
    """
    begin()
    tpl = CFG['tpl']
    role = CFG['role']
    flags = {'proxy': FLAGS_P, 'web': FLAGS_W, 'both': FLAGS_PW}[role]
    if CFG.get('ascii'):
        for x in (s0, s1, s2, s3, s4):
            if x >= 128:
                return skip()
    data = _message(tpl, [s0, s1, s2, s3, s4])
    cut = CFG.get('cut')
    with concrete():
        env = envkit.new_env()
        h, cs = envkit.make_handler(flags, env)
    pieces = [data] if cut is None else [data[:cut], data[cut:]]
    td = False
    raised = None
    for p in pieces:
        if len(p) == 0:
            continue
        cs.inq.append(p)
        try:
            td = run(h.handle_events([cs.fd], []))
        except Exception as e:
            raised = e
            break
        if td or h.must_flush_before_shutdown:
            break
    out = cat(h.work.buffer)
    closing = bool(td) or h.must_flush_before_shutdown
    if raised is not None:
        # an exception leaving handle_events is turned into teardown of this work by the executor (C05's subject):
        # here it must at least not leave a half-made response behind
        if out != b'' and refhttp.response_wellformed(out) is not None:
            return fail('exception after a partial response was queued', exc=repr(raised), out=repr(out[:60]))
        return ok()
    if h.plugin is not None and not closing:
        # served: a protocol plugin took the request. Anything it queued so far must be a whole response
        # (the tunnel acknowledgement) or nothing.
        if out != b'' and out != R.PROXY_TUNNEL_ESTABLISHED_RESPONSE_PKT.tobytes():
            why = refhttp.response_wellformed(out, closes_after=False)
            if why is not None:
                return fail('served connection with a malformed queued response', why=why, out=repr(out[:80]))
        return ok()
    if not closing:
        # waiting for the rest of the request
        if out != b'':
            return fail('response queued but the connection is kept open without a handler', out=repr(out[:80]))
        if h.request.is_complete:
            return fail('request complete, nobody serves it and the connection stays open')
        return ok()
    # closing
    if out == b'':
        return ok()         # clean close
    why = refhttp.response_wellformed(out, closes_after=True)
    if why is not None:
        return fail('error response is not well-formed', why=why, out=repr(out[:120]))
    m = refhttp.read_message(out, True)
    conn = [v for (k, n, v) in m['headers'] if k == b'connection']
    if m['start'][1][0] != 50 and m['start'][1][0] != 52 and m['start'][1][0] != 53:
        pass
    if role != 'web' and h.plugin is None and out not in _canned():
        return fail('rejection response is not one of the canned packets', out=repr(out[:80]))
    return ok()


def after_served(s0: int, s1: int, s2: int, c: int) -> bool:
    """
    pre: 0 <= s0 < 256 and 0 <= s1 < 256 and 0 <= s2 < 256
    pre: 0 <= c <= 1
    post: _
    """
    begin()
    # bytes that follow a request which a web-server route is serving: whatever the proxy itself emits afterwards is a whole number
    # of well-formed responses, at most one per request - and never an HTTP message inside an upgraded (websocket) stream
    tpl = CFG['tpl']
    with concrete():
        env = envkit.new_env()
        h, cs = envkit.make_handler(scen.FLAGS['webws'], env)
    if tpl.startswith('ws'):
        first = scen.WS_HANDSHAKE
        if tpl == 'ws_op':
            nxt = B(s0, 0x00)                  # arbitrary FIN/RSV/opcode byte (CLOSE, PING, reserved ...), empty payload
        elif tpl == 'ws_len':
            nxt = B(0x81, s0, s1)              # arbitrary length/mask byte, one byte following
        else:
            nxt = B(0x88, 0x02, s0, s1)        # CLOSE with an arbitrary status code
        nreq = 1
    else:
        first = b'GET /hello HTTP/1.1\r\nHost: x\r\n\r\n'
        if tpl == 'follow_close':
            nxt = b'GET /hello' + B(s0) + b' HTTP/1.1\r\nHost: x\r\n' + (b'Connection: close\r\n' if c else b'') + b'\r\n'
            if s0 <= 32 or s0 >= 127:
                return skip()
        elif tpl == 'follow_http10':
            nxt = b'GET /hello HTTP/1.' + B(s0) + b'\r\nHost: x\r\n\r\n'
        else:
            nxt = b'GET /hello HTTP/1.1\r\nA' + B(s0) + b':' + B(s2) + b'\r\n\r\n'
        nreq = 2
    cs.inq.append(first)
    try:
        td = run(h.handle_events([cs.fd], []))
    except Exception as e:
        return fail('exception on the first request', exc=repr(e))
    if td or h.must_flush_before_shutdown or h.plugin is None:
        return fail('first request not served')
    n0 = len(cat(h.work.buffer))
    head = cat(h.work.buffer)
    cs.inq.append(nxt)
    raised = None
    try:
        td = run(h.handle_events([cs.fd], []))
    except Exception as e:
        raised = e
    out = cat(h.work.buffer)
    if out[:n0] != head:
        return fail('already queued output altered')
    tail = out[n0:]
    if tpl.startswith('ws'):
        if tail[:5] == b'HTTP/' or b'HTTP/1.1 4' in tail:
            return fail('an HTTP response was written into the upgraded websocket stream', tail=repr(tail[:60]))
        return ok()
    # plain HTTP: everything queued is a sequence of complete, well-formed responses; not more of them than requests
    data = out
    nresp = 0
    while len(data) > 0:
        why = refhttp.response_wellformed(data, closes_after=False, allow_remainder=True) if False else None
        try:
            m = refhttp.read_message(data, True)
        except refhttp.Malformed as e:
            return fail('queued output is not a sequence of well-formed responses', why=str(e), out=repr(data[:80]))
        nresp += 1
        data = m['remainder']
    if nresp > nreq:
        return fail('more responses than requests', nresp=nresp, out=repr(out[:200]))
    if raised is None and not (td or h.must_flush_before_shutdown) and nresp < nreq and h.plugin.pipeline_request is None:
        return fail('complete follow-up request neither answered nor rejected', out=repr(out[:120]))
    return ok()


def builders(r0: int, r1: int, n0: int, v0: int, v1: int, d0: int, d1: int, d2: int) -> bool:
    """
    pre: 33 <= r0 <= 126 and 33 <= r1 <= 126 and 33 <= v0 <= 126 and 33 <= v1 <= 126
    pre: 97 <= n0 <= 122
    pre: 0 <= d0 < 256 and 0 <= d1 < 256 and 0 <= d2 < 256
    post: _
    """
    begin()
    which = CFG['which']
    blen = CFG['blen']
    body = B(d0, d1, d2)[:blen]
    hdrs = {b'X-' + B(n0): B(v0, v1)} if CFG.get('hdr') else None
    closes = None
    if which == 'response':
        out = build_http_response(CFG['code'], reason=B(r0, r1)[:CFG['rlen']] if CFG['rlen'] else None, headers=hdrs,
                                  body=body if blen else None, conn_close=CFG['close'], no_cl=CFG['no_cl'])
        closes = True if CFG['close'] else None
    elif which == 'ok':
        out = R.okResponse(content=body if blen else None, headers=hdrs, compress=False, conn_close=CFG['close']).tobytes()
        closes = True if CFG['close'] else None
    elif which == 'redirect':
        out = R.permanentRedirectResponse(b'http://' + B(v0, v1) + b'/').tobytes()
        closes = True
    elif which == 'seeother':
        out = R.seeOthersResponse(b'/' + B(v0, v1)).tobytes()
        closes = True
    elif which == 'rejected':
        e = HttpRequestRejected(status_code=CFG['code'], reason=B(r0, r1)[:CFG['rlen']] if CFG['rlen'] else None, headers=hdrs,
                                body=body if blen else None)
        mv = e.response(None)
        out = mv.tobytes()
        closes = True
    elif which == 'reuse':
        # one header dict used for two responses with different bodies (builders write into the caller's dict)
        shared = {b'X-' + B(n0): B(v0, v1)}
        first = build_http_response(200, reason=b'OK', headers=shared, body=B(d0, d1, d2)[:CFG['blen1']] or None)
        why1 = refhttp.response_wellformed(first)
        if why1 is not None:
            return fail('first response from a shared header dict is not well-formed', why=why1)
        out = build_http_response(200, reason=b'OK', headers=shared, body=body if blen else None)
    elif which == 'own_cl':
        # the caller states its own (correct) Content-Length
        hdrs = {b'Content-Length': b'%d' % blen, b'X-' + B(n0): B(v0)}
        out = R.okResponse(content=body if blen else None, headers=hdrs, compress=False).tobytes()
    else:
        raise ValueError(which)
    code = CFG.get('code', 200)
    if (code < 200 or code in (204, 304)) and blen:
        return skip()
    why = refhttp.response_wellformed(out, closes_after=closes)
    if why is not None:
        return fail('builder output is not well-formed', why=why, out=repr(out[:120]))
    m = refhttp.read_message(out, True)
    if m['body'] != body:
        return fail('body length inconsistent with framing', got=repr(m['body']), want=repr(body), framing=m['framing'])
    return ok()


def canned_vec(i):
    """Every canned packet and the compressed okResponse judged by the reference reader AND by h11 (concrete; natively)."""
    begin()
    pk = _canned() + [R.okResponse(b'x' * 100, compress=True, min_compression_length=20).tobytes(),
                      R.okResponse(b'hello', {b'A': b'b'}, conn_close=True).tobytes()]
    shared = {b'Content-Length': b'3'}
    pk = pk + [R.okResponse(b'abc', shared).tobytes(), R.okResponse(b'y' * 60, shared, compress=True, min_compression_length=20).tobytes()]
    p = pk[i % len(pk)]
    why = refhttp.response_wellformed(p)
    if why is not None:
        return fail('canned packet is not well-formed', why=why, pkt=repr(p[:80]))
    try:
        st, hs, body = refhttp.h11_response(p)
    except Exception as e:
        return fail('h11 rejects a canned packet', exc=repr(e), pkt=repr(p[:80]))
    m = refhttp.read_message(p, True)
    if m['body'] != body or int(m['start'][1]) != st:
        return fail('h11 and the reference reader disagree', pkt=repr(p[:80]))
    if dict(hs).get(b'content-encoding') == b'gzip' and gzip.decompress(body) not in (b'x' * 100, b'y' * 60):
        return fail('compressed body does not decompress to the content')
    return ok()


def selftest():
    return refhttp.selftest()


def obligations(tier):
    obs = []
    T = 300
    for role in ('proxy', 'web', 'both'):
        for tpl in ('method', 'target', 'target_abs', 'connect', 'version', 'header', 'clen', 'tenc', 'raw4', 'raw4_end', 'line_raw',
                    'web_path'):
            if role == 'both' and tier == 'quick' and tpl not in ('target', 'raw4_end', 'line_raw'):
                continue
            if role == 'web' and tpl in ('target_abs', 'connect'):
                continue
            cuts = [None] if tier == 'quick' else [None, 3, 9]
            for cut in cuts:
                obs.append({'name': 'totality.%s.%s%s' % (role, tpl, '' if cut is None else '.cut%d' % cut), 'fn': 'totality',
                            'cfg': {'tpl': tpl, 'role': role, 'cut': cut},
                            'timeout': T if tier == 'quick' else 1500, 'group': 'totality'})
        for trunc in (3, 10, 20, 30, 41, 43, 58):
            obs.append({'name': 'totality.%s.truncated%d' % (role, trunc), 'fn': 'totality',
                        'cfg': {'tpl': 'truncated', 'role': role, 'trunc': trunc}, 'timeout': T, 'group': 'totality'})
    for tpl in ('ws_op', 'ws_len', 'ws_close', 'follow_close', 'follow_http10'):
        obs.append({'name': 'after_served.%s' % tpl, 'fn': 'after_served', 'cfg': {'tpl': tpl}, 'timeout': 900, 'group': 'after_served'})
    codes = (200, 404) if tier == 'quick' else (100, 200, 204, 301, 304, 400, 404, 407, 500, 502, 599)
    for code in codes:
        for blen in (0, 1, 3):
            if blen and (code < 200 or code in (204, 304)):
                continue               # these status codes never carry a body
            for close in (False, True):
                for no_cl in (False, True):
                    if no_cl and blen and not close:
                        continue       # a body with neither length nor close is the caller's contract violation, not the builder's
                    for hdr in (False, True):
                        if tier == 'quick' and hdr and (code != 200 or no_cl):
                            continue
                        obs.append({'name': 'builders.response.%d.b%d%s%s%s' % (code, blen, '.close' if close else '', '.nocl' if no_cl else '',
                                                                               '.hdr' if hdr else ''), 'fn': 'builders', 'group': 'builders',
                                    'cfg': {'which': 'response', 'code': code, 'blen': blen, 'close': close, 'no_cl': no_cl, 'rlen': 2,
                                            'hdr': hdr}, 'timeout': 200})
        for blen in (0, 2):
            if blen and (code < 200 or code in (204, 304)):
                continue
            obs.append({'name': 'builders.rejected.%d.b%d' % (code, blen), 'fn': 'builders', 'group': 'builders',
                        'cfg': {'which': 'rejected', 'code': code, 'blen': blen, 'rlen': 0, 'hdr': True}, 'timeout': 200})
    for blen in (0, 1, 3):
        for close in (False, True):
            obs.append({'name': 'builders.ok.b%d%s' % (blen, '.close' if close else ''), 'fn': 'builders', 'group': 'builders',
                        'cfg': {'which': 'ok', 'blen': blen, 'close': close, 'hdr': True}, 'timeout': 200})
    for b1 in (0, 1, 3):
        for b2 in (0, 2, 3):
            if b1 != b2:
                obs.append({'name': 'builders.reuse.b%d_then_b%d' % (b1, b2), 'fn': 'builders', 'group': 'builders',
                            'cfg': {'which': 'reuse', 'blen1': b1, 'blen': b2}, 'timeout': 200})
    for blen in (0, 2):
        obs.append({'name': 'builders.own_cl.b%d' % blen, 'fn': 'builders', 'group': 'builders', 'cfg': {'which': 'own_cl', 'blen': blen}, 'timeout': 200})
    obs.append({'name': 'builders.redirect', 'fn': 'builders', 'group': 'builders', 'cfg': {'which': 'redirect', 'blen': 0}, 'timeout': 200})
    obs.append({'name': 'builders.seeother', 'fn': 'builders', 'group': 'builders', 'cfg': {'which': 'seeother', 'blen': 0}, 'timeout': 200})
    obs.append({'name': 'concrete.canned_h11', 'kind': 'concrete', 'fn': 'canned_vec', 'cfg': {}, 'group': 'concrete',
                'args_list': [[i] for i in range(11)], 'timeout': 60})
    return obs


META = {
    'bounds': {
        'quick': 'first-request bytes from 13 mutation templates (method of 3 arbitrary bytes, target of 3-4, version tail of 3, header name/'
                 'value of 1+1, Content-Length value of 3, chunk-size of 2, 4 fully arbitrary bytes with and without a terminator, a 5-byte '
                 'arbitrary request line, truncations at 7 points, web path of 3) in three roles (proxy, web server, both), one segment; after a '
                 'served web request: a follow-up request with arbitrary path byte / version digit and optional Connection: close, and '
                 'after a websocket upgrade: frames with arbitrary opcode byte, length byte, close status; '
                 'builders: status codes from a list, reason of 2 symbolic bytes, optional header, body 0..3 symbolic bytes, conn_close / no_cl',
        'thorough': 'two segments (cuts at 3 and 9) for every template, 11 status codes',
    },
    'outside': 'inputs longer than the templates; more than 5 arbitrary bytes at once; gzip of symbolic content (compressed okResponse is '
               'judged on a concrete vector by the reference reader and by h11); exceptions that leave handle_events are counted as '
               '"closed" here because the executor tears the work down (that boundary is C05)',
    'stubs': ['FakeSocket client, connect stub returning a FakeSocket', 'reference reader vlib/refhttp.py (cross-checked against h11 each run)'],
}
