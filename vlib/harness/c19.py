"""C19 — proxy listens where configured, reports its ports truthfully, shuts down cleanly
(claimed for the bookkeeping half only: sockets, processes and files are stubbed).

Real code: Proxy.setup/shutdown/_write_port_file/_write_pid_file/_delete_port_file/_delete_pid_file,
ListenerPool.setup/add/shutdown, TcpSocketListener.__init__, BaseListener.setup/shutdown.
"""
import ipaddress

from proxy import proxy as P
from proxy.core.listener import pool as LP
from proxy.core.listener.tcp import TcpSocketListener
from proxy.core.listener.unix import UnixSocketListener

from vlib.hk import CFG, begin, ok, fail, skip, concrete

LOG = []
FS = {}


class _Rec:
    """Recorder standing in for AcceptorPool / ThreadlessPool / EventManager."""

    def __init__(self, *a, **k):
        self.kind = k.pop('_kind', self.__class__.__name__)
        self.work_queues, self.work_pids, self.work_locks = [], [], []
        self.queue = None
        self.listeners = k.get('listeners')

    def setup(self):
        if self.listeners is not None:
            # acceptors must be started on listeners that are already bound
            for l in self.listeners.pool:
                if l._socket is None or l._socket.closed:
                    LOG.append(('acceptors-started-on-unbound-listener',))
        LOG.append(('setup', self.__class__.__name__))

    def shutdown(self):
        LOG.append(('shutdown', self.__class__.__name__))


class _Acc(_Rec):
    pass


class _Exe(_Rec):
    pass


class _Evm(_Rec):
    pass


P.AcceptorPool = _Acc
P.ThreadlessPool = _Exe
P.EventManager = _Evm


class _LSock:
    def __init__(self, what):
        self.what = what
        self.closed = False

    def close(self):
        self.closed = True
        LOG.append(('listener-closed', self.what))

    def fileno(self):
        return 7


class _File:
    def __init__(self, path):
        self.path = path
        self.data = b''

    def write(self, b):
        self.data = self.data + b

    def __enter__(self):
        return self

    def __exit__(self, *a):
        FS[self.path] = self.data
        return False


class _OsPath:
    @staticmethod
    def exists(p):
        return p in FS


class _Os:
    path = _OsPath
    environ = {}

    @staticmethod
    def remove(p):
        del FS[p]

    @staticmethod
    def getpid():
        return 4242


P.open = lambda path, mode='r': _File(path)
P.os = _Os
from proxy.core.listener import unix as _unix
_unix.os = _Os


class _Addr:
    version = 4

    def __init__(self, s):
        self.s = s

    def __str__(self):
        return self.s

    def __hash__(self):
        return len(self.s) * 31 + ord(self.s[-1])

    def __eq__(self, o):
        return isinstance(o, _Addr) and o.s == self.s


POOL = [0, 8899, 9000, 9001, 40123]       # port values a configuration entry may take (0 = OS-assigned)
OSPORTS = [40001, 40002, 40003, 40004]   # what the "OS" hands out for port 0, in order


def _pick(i):
    """Solver-decided ladder: turns a symbolic selector into a concrete port value (sets/dicts in
    Proxy.setup hash the port numbers, and hashing a symbolic int makes CrossHair enumerate its values)."""
    for k in range(len(POOL)):
        if i == k:
            return POOL[k]
    return None


def ports(primary: int, e0: int, e1: int, e2: int, a0: int, a1: int, a2: int, a3: int) -> bool:
    """
    pre: 0 <= primary <= 4 and 0 <= e0 <= 4 and 0 <= e1 <= 4 and 0 <= e2 <= 4
    post: _
    """
    begin()
    primary, e0, e1, e2 = _pick(primary), _pick(e0), _pick(e1), _pick(e2)
    a0, a1, a2, a3 = OSPORTS
    n_extra = CFG['extra']
    unix = CFG['unix']
    two_hosts = CFG['two_hosts']
    files = CFG['files']
    extras = [e0, e1, e2][:n_extra]
    cfg_ports = ([] if unix else [primary]) + extras
    # configured fixed ports must be distinct from each other and from what the OS hands out
    fixed = [p for p in cfg_ports if p != 0]
    for i in range(len(fixed)):
        for j in range(i + 1, len(fixed)):
            if fixed[i] == fixed[j]:
                return skip()
        for a in (a0, a1, a2, a3):
            if fixed[i] == a:
                return skip()
    if two_hosts:
        for p in cfg_ports:
            if p == 0:
                return skip()       # an OS-assigned port is per address: only claimed with a single listening address
    assigned = [a0, a1, a2, a3]
    bound = []          # (hostname, requested, got)
    del LOG[:]
    FS.clear()

    def listen(self):
        p = self.port
        if p == 0:
            p = assigned.pop(0)
        self._port = p
        bound.append((str(self.hostname), self.port, p))
        return _LSock(('tcp', str(self.hostname), p))

    def ulisten(self):
        bound.append(('unix', None, None))
        FS['/run/p.sock'] = b'<socket>'
        return _LSock(('unix',))
    TcpSocketListener.listen = listen
    UnixSocketListener.listen = ulisten
    via_flags = CFG.get('via_flags')      # concrete vectors only: the port values go through the real command-line parsing
    args = ['--threadless', '--port', str(primary) if via_flags else '8899']
    if via_flags and extras:
        args += ['--ports'] + [str(x) for x in extras]
    if two_hosts:
        args += ['--hostnames', '127.0.0.2']
    if unix:
        args += ['--unix-socket-path', '/run/p.sock']
    if files:
        args += ['--port-file', '/run/p.port', '--pid-file', '/run/p.pid']
    if CFG.get('events'):
        args += ['--enable-events']
    with concrete():
        px = P.Proxy(args)      # flag parsing is concrete; the symbolic ports are put into the parsed flags below
    # ipaddress objects hash through hex(), which CrossHair's tracer turns into a non-int: use plain stand-ins for the addresses
    px.flags.hostname = _Addr('127.0.0.1')
    px.flags.hostnames = [_Addr('127.0.0.2')] if two_hosts else []
    if not via_flags:
        px.flags.port = primary
        px.flags.ports = list(extras)
    px._register_signals = lambda: None
    try:
        px.setup()
    except Exception as e:
        import os, traceback
        if os.environ.get('VERIF_DEBUG_FAIL'):
            traceback.print_exc()
        return fail('setup raised', exc=repr(e))
    # ground truth from the listen() stub: what was bound for which configured port
    got_for = {}
    zero_gots = []
    for host, req, got in bound:
        if host == 'unix':
            continue
        if req == 0:
            if got not in zero_gots:
                zero_gots.append(got)
        else:
            got_for[req] = got
    hosts = sorted(set(h for h, r, g in bound if h != 'unix'))
    want_hosts = ['127.0.0.1', '127.0.0.2'] if two_hosts else ['127.0.0.1']
    if not unix or extras:
        if hosts != want_hosts:
            return fail('not every configured address is listened on', hosts=repr(hosts))
    for h in hosts:
        reqs = sorted(r for hh, r, g in bound if hh == h)
        if reqs != sorted(cfg_ports):
            return fail('not every configured port is listened on for an address', host=h, reqs=repr(reqs), cfg=repr(cfg_ports))
    if unix and ('unix', None, None) not in bound:
        return fail('unix socket not listened on')
    all_bound = sorted(set(g for h, r, g in bound if h != 'unix'))
    reported = ([] if unix else [px.flags.port]) + list(px.flags.ports)
    if sorted(reported) != all_bound or len(set(reported)) != len(reported):
        return fail('reported ports are not exactly the bound TCP ports', reported=repr(reported), bound=repr(all_bound))
    if not unix:
        # the primary configured port is created/bound first, so with port 0 it receives the first OS-assigned port
        prim_bound = got_for[primary] if primary != 0 else None
        if primary != 0 and px.flags.port != prim_bound:
            return fail('flags.port is not the port bound for the primary configured port', got=px.flags.port, want=prim_bound)
        if primary == 0:
            prim_entries = [g for h, r, g in bound if r == 0]
            # identify the primary's listener by configuration identity: it is the TcpSocketListener whose .port attr came from flags.port
            # (recorded by the stub through creation order of ListenerPool.setup; checked independently below)
            if px.flags.port not in prim_entries:
                return fail('flags.port is not an OS-assigned port although --port 0 was configured', got=px.flags.port)
            # with a fixed additional port, none of the fixed ports may be reported as primary
            if px.flags.port in fixed:
                return fail('a fixed additional port is reported as the primary port')
    if files:
        want = b''.join((b'%d\n' % p) for p in reported)
        if FS.get('/run/p.port') != want:
            return fail('port file does not list the reported ports, primary first', got=repr(FS.get('/run/p.port')), want=repr(want))
        if FS.get('/run/p.pid') != b'4242':
            return fail('pid file content', got=repr(FS.get('/run/p.pid')))
    if ('acceptors-started-on-unbound-listener',) in LOG:
        return fail('acceptors started before the listeners were bound')
    # shutdown: acceptors first, listeners closed, files removed
    del LOG[:]
    try:
        px.shutdown()
    except Exception as e:
        import os, traceback
        if os.environ.get('VERIF_DEBUG_FAIL'):
            traceback.print_exc()
        return fail('shutdown raised', exc=repr(e))
    closed = [x for x in LOG if x[0] == 'listener-closed']
    if len(closed) != len(bound):
        return fail('not every listening endpoint was closed', closed=len(closed), bound=len(bound))
    if ('shutdown', '_Acc') not in LOG:
        return fail('acceptors not shut down')
    if LOG.index(('shutdown', '_Acc')) > min(i for i, x in enumerate(LOG) if x[0] == 'listener-closed'):
        return fail('a listener was closed before the acceptors were stopped')
    if '/run/p.port' in FS or '/run/p.pid' in FS or '/run/p.sock' in FS:
        return fail('port/pid file left behind after shutdown', fs=repr(sorted(FS)))
    if px.listeners.pool:
        return fail('listener pool not emptied')
    return ok()


def ports_vec(primary, e0, e1, e2):
    return ports(primary, e0, e1, e2, 0, 0, 0, 0)


def obligations(tier):
    obs = []
    # every selector tuple natively through the real flag parsing (FlagParser.initialize normalises --port/--ports before setup() sees
    # them; tracing it symbolically realises everything): concrete vectors, NOT a solver claim
    for unix in (False, True):
        for extra in (1, 2, 3):
            vecs = [[p, a, b, c] for p in range(5) for a in range(5) for b in (range(5) if extra >= 2 else (0,))
                    for c in (range(5) if extra >= 3 else (0,)) if not (unix and p != 1)]
            obs.append({'name': 'concrete.flags.%s.extra%d' % ('unix' if unix else 'tcp', extra), 'kind': 'concrete', 'fn': 'ports_vec',
                        'cfg': {'unix': unix, 'extra': extra, 'two_hosts': False, 'files': True, 'via_flags': True}, 'group': 'concrete',
                        'args_list': vecs, 'timeout': 300})
    for unix in (False, True):
        for extra in (0, 1, 2, 3):
            for two in (False, True):
                for files in (False, True):
                    if tier == 'quick' and files and two and extra not in (0, 2):
                        continue
                    if unix and two and extra == 0:
                        continue
                    obs.append({'name': 'ports.%s.extra%d.%s.%s' % ('unix' if unix else 'tcp', extra, 'hosts2' if two else 'host1',
                                                                     'files' if files else 'nofiles'), 'fn': 'ports',
                                'cfg': {'unix': unix, 'extra': extra, 'two_hosts': two, 'files': files}, 'timeout': 300})
    return obs


META = {
    'bounds': {
        'quick': 'primary port and 0..3 additional ports each chosen by a symbolic selector from {0, 8899, 9000, 9001, 40123} (every equality '
                 'pattern incl. port 0; the code only compares/hashes ports); OS-assigned ports are 4 distinct concrete values; unix socket on/off; one or two listening addresses (port 0 only with one); port/pid files on/off; '
                 'plus, natively, every such tuple given on the command line (--port/--ports through FlagParser.initialize)',
        'thorough': 'same, all combinations',
    },
    'outside': 'NOT ENCODABLE, outside the claim: that the endpoints really accept connections, child processes, real files, IPv6 listening '
               'addresses, execution modes (acceptor/executor pools are recorders). Claimed: port bookkeeping (flags.port/ports, port file), '
               'start/stop ordering, file removal.',
    'stubs': ['TcpSocketListener.listen / UnixSocketListener.listen replaced: record (address, requested port), assign the requested port or '
              'the next symbolic OS port', 'AcceptorPool, ThreadlessPool, EventManager replaced by recorders', 'open/os.path.exists/os.remove/'
              'os.getpid inside proxy.proxy replaced by an in-memory file system'],
}
