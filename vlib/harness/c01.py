"""C01 — relayed byte streams arrive exactly once, in order, unmodified.

Real code: TcpConnection.queue/flush/has_buffer/send/recv, BaseTcpServerHandler.*,
HttpProtocolHandler.handle_events/handle_data/handle_writables/handle_readables/get_events,
HttpProxyPlugin.on_request_complete/on_client_data/read_from_descriptors/write_to_descriptors/
get_descriptors/handle_pipeline_response, HttpParser.parse (response side), ChunkParser.
"""
from proxy.common.flag import FlagParser
from proxy.core.connection import TcpClientConnection
from proxy.http.responses import PROXY_TUNNEL_ESTABLISHED_RESPONSE_PKT

from vlib import envkit
from vlib.hk import CFG, begin, ok, fail, skip, B, run, cat, concrete

envkit.install()
FLAGS = FlagParser.initialize(['--threadless'])
FLAGS_SMALL = FlagParser.initialize(['--threadless', '--max-sendbuf-size', '2'])
ACK = PROXY_TUNNEL_ESTABLISHED_RESPONSE_PKT.tobytes()


# --------------------------------------------------------------------------- #
# (1) conn_step: one queue()/flush() from an arbitrary valid buffer state
# --------------------------------------------------------------------------- #
def conn_step(a0: int, a1: int, a2: int, a3: int, x0: int, x1: int, k: int) -> bool:
    """
    pre: 0 <= a0 < 256 and 0 <= a1 < 256 and 0 <= a2 < 256 and 0 <= a3 < 256
    pre: 0 <= x0 < 256 and 0 <= x1 < 256
    pre: -3 <= k <= 5
    post: _
    """
    begin()
    lens = CFG['lens']          # lengths of the queued elements (representation invariant: arbitrary)
    op = CFG['op']
    env = envkit.new_env()
    s = env.sock('peer')
    c = TcpClientConnection(s, ('1.1.1.1', 1))
    data = [a0, a1, a2, a3]
    i = 0
    for ln in lens:
        c.buffer.append(memoryview(B(*data[i:i + ln])))
        i += ln
    c._num_buffer = len(lens)
    before = cat(c.buffer)
    if op == 'queue':
        x = B(x0, x1)[:CFG['xlen']]
        c.queue(memoryview(x))
        if cat(c.buffer) != before + x:
            return fail('queue() did not append exactly the given bytes at the tail')
        if c._num_buffer != len(c.buffer):
            return fail('element counter out of sync after queue()')
        if not c.has_buffer():
            return fail('has_buffer() false after queue()')
        if s.out != b'':
            return fail('queue() wrote to the socket')
        return ok()
    s.sendscript = [k]
    try:
        r = c.flush(CFG['max_send'])
    except (BrokenPipeError, ConnectionResetError):
        # error outcomes: nothing may have been consumed from the buffer
        if cat(c.buffer) != before or s.out != b'':
            return fail('buffer changed although send() raised')
        return ok()
    after = cat(c.buffer)
    if s.out + after != before:
        return fail('delivered + pending != previously pending', out=repr(s.out), after=repr(after), before=repr(before))
    if r != len(s.out):
        return fail('flush() return value differs from bytes accepted by the socket', r=r)
    if c._num_buffer != len(c.buffer):
        return fail('element counter out of sync after flush()')
    if c.has_buffer() != (len(c.buffer) > 0):
        return fail('has_buffer() inconsistent with buffer')
    if len(before) > 0 and k >= 1 and r < 1 and lens[0] > 0:
        return fail('no progress although the socket accepted bytes')
    if len(lens) > 0 and lens[0] == 0 and k >= 0 and len(c.buffer) >= len(lens):
        # a zero-length element (a plugin may queue b'') holds no output: a flush on a writable socket must retire it, otherwise
        # has_buffer() stays true for ever (the connection is never idle, never drained)
        return fail('zero-length element at the head of the buffer not retired by flush()')
    ms = CFG['max_send']
    if ms is not None and r > ms:
        return fail('more than max_send_size bytes written in one flush')
    return ok()


# --------------------------------------------------------------------------- #
# (2) tunnel_k: CONNECT tunnel, k event-loop steps with symbolic schedule
# --------------------------------------------------------------------------- #
def _consumed(sent, sock):
    """Bytes of `sent` the proxy has already read from `sock`."""
    left = 0
    for seg in sock.inq:
        left += len(seg)
    return sent[:len(sent) - left]


def _step(h, cs, us, mask):
    """What the executor does in one iteration: ask for interest, 'select', dispatch.
    `mask` chooses which of the truly-ready descriptors the selector reports
    (bit0 client-readable, bit1 client-writable, bit2 upstream-readable, bit3 upstream-writable)."""
    ev = run(h.get_events())
    r, w = [], []
    if cs.fd in ev:
        if (ev[cs.fd] & 1) and cs.inq and (mask & 1):
            r.append(cs.fd)
        if (ev[cs.fd] & 2) and (mask & 2):
            w.append(cs.fd)
    if us is not None and us.fd in ev:
        if (ev[us.fd] & 1) and us.inq and (mask & 4):
            r.append(us.fd)
        if (ev[us.fd] & 2) and (mask & 8):
            w.append(us.fd)
    return run(h.handle_events(r, w))


def _tunnel_up(flags):
    """Concrete prefix: CONNECT handled by the real handler, acknowledgement flushed."""
    env = envkit.new_env()
    h, cs = envkit.make_handler(flags, env)
    cs.inq.append(b'CONNECT h.example:443 HTTP/1.1\r\nHost: h.example:443\r\n\r\n')
    td = run(h.handle_events([cs.fd], []))
    us = env.connects[0][1] if env.connects else None
    return env, h, cs, us, td


def tunnel_step(a0: int, a1: int, a2: int, b0: int, b1: int, b2: int, c0: int, c1: int, u0: int, u1: int,
                mask: int, s: int, t: int) -> bool:
    """
    pre: 0 <= a0 < 256 and 0 <= a1 < 256 and 0 <= a2 < 256
    pre: 0 <= b0 < 256 and 0 <= b1 < 256 and 0 <= b2 < 256
    pre: 0 <= c0 < 256 and 0 <= c1 < 256 and 0 <= u0 < 256 and 0 <= u1 < 256
    pre: 0 <= mask < 16
    pre: -3 <= s <= 3 and -3 <= t <= 3
    post: _
    """
    begin()
    # Inductive step: ANY state of an established tunnel (arbitrary pending buffers in both
    # directions, arbitrary unread segments on both sockets), ONE event-loop iteration with an
    # arbitrary reported-ready subset and arbitrary send outcomes, preserves the stream equations.
    flags = FLAGS_SMALL if CFG.get('small') else FLAGS
    with concrete():
        env, h, cs, us, td = _tunnel_up(flags)
        if td or us is None:
            return fail('tunnel not established')
        for j in range(len(ACK) + 1):
            if not h.work.has_buffer():
                break
            if run(h.handle_events([], [cs.fd])):
                return fail('teardown while flushing the acknowledgement')
        if cs.out != ACK or h.work.has_buffer():
            return fail('acknowledgement not flushed')
    cl, ul = CFG['cbuf'], CFG['ubuf']          # element lengths pending towards client / upstream
    a = [a0, a1, a2]
    b = [b0, b1, b2]
    i = 0
    for ln in cl:
        h.work.queue(memoryview(B(*a[i:i + ln])))
        i += ln
    i = 0
    for ln in ul:
        h.plugin.upstream.queue(memoryview(B(*b[i:i + ln])))
        i += ln
    cin = B(c0, c1)[:CFG['cin']] if CFG['cin'] > 0 else None
    uin = B(u0, u1)[:CFG['uin']] if CFG['uin'] > 0 else None
    if cin is not None:
        cs.inq.append(cin)
    if uin is not None:
        us.inq.append(uin)
    pc0 = envkit.pending(h.work)
    pu0 = envkit.pending(h.plugin.upstream)
    cs.sendscript = [0] * cs.si + [s]
    us.sendscript = [0] * us.si + [t]
    ncs, nus = cs.si, us.si
    try:
        td = _step(h, cs, us, mask)
    except Exception as ex:
        return fail('exception left handle_events', exc=repr(ex))
    err_c = s <= -2 and cs.si > ncs
    err_u = t <= -2 and us.si > nus
    if td and not (err_c or err_u):
        return fail('tunnel torn down although no peer closed and no socket error occurred')
    read_u = uin if (uin is not None and not us.inq) else b''
    read_c = cin if (cin is not None and not cs.inq) else b''
    if not td:
        # progress: whatever else is pending (also towards a peer that does not take data right now), a segment whose descriptor
        # the selector may report readable is read in this iteration - the proxy never stops listening to one side of a tunnel
        if uin is not None and (mask & 4) and us.inq:
            return fail('upstream had unread bytes and was selectable, but the proxy did not read them (not registered for reading?)',
                        pending_up=len(pu0), pending_client=len(pc0))
        if cin is not None and (mask & 1) and cs.inq:
            return fail('client had unread bytes and was selectable, but the proxy did not read them (not registered for reading?)',
                        pending_up=len(pu0), pending_client=len(pc0))
        if cs.out[len(ACK):] + envkit.pending(h.work) != pc0 + read_u:
            return fail('client direction: delivered + pending != previously pending + newly read upstream bytes',
                        out=repr(cs.out[len(ACK):]), pend=repr(envkit.pending(h.work)))
        if us.out + envkit.pending(h.plugin.upstream) != pu0 + read_c:
            return fail('upstream direction: delivered + pending != previously pending + newly read client bytes',
                        out=repr(us.out), pend=repr(envkit.pending(h.plugin.upstream)))
        if cs.out[:len(ACK)] != ACK:
            return fail('acknowledgement corrupted')
        # fair continuation: everything still pending or unread is delivered in a bounded number of steps
        cs.sendscript = []
        us.sendscript = []
        want_c = pc0 + (uin if uin is not None else b'')
        want_u = pu0 + (cin if cin is not None else b'')
        for j in range(len(cl) + len(ul) + 4):
            if cs.out[len(ACK):] == want_c and us.out == want_u:
                break
            try:
                if _step(h, cs, us, 15):
                    return fail('torn down during fair continuation')
            except Exception as ex:
                return fail('exception during fair continuation', exc=repr(ex))
        if cs.out[len(ACK):] != want_c:
            return fail('client never received all pending/unread upstream bytes', out=repr(cs.out[len(ACK):]), want=repr(want_c))
        if us.out != want_u:
            return fail('upstream never received all pending/unread client bytes', out=repr(us.out), want=repr(want_u))
    return ok()


MASKS = (15, 5, 10)     # everything ready is reported / only readables / only writables


def tunnel(c0: int, c1: int, u0: int, u1: int, m0: int, m1: int, m2: int,
           s0: int, s1: int, t0: int, t1: int) -> bool:
    """
    pre: 0 <= c0 < 256 and 0 <= c1 < 256 and 0 <= u0 < 256 and 0 <= u1 < 256
    pre: 0 <= m0 < 3 and 0 <= m1 < 3 and 0 <= m2 < 3
    pre: -1 <= s0 <= 2 and -1 <= s1 <= 2
    pre: -1 <= t0 <= 2 and -1 <= t1 <= 2
    post: _
    """
    begin()
    # From the real initial state (CONNECT just parsed, ACK still queued): k steps, then fair drain.
    events = CFG['events']        # per step: C client segment arrives, U upstream segment arrives, - nothing new
    flags = FLAGS_SMALL if CFG.get('small') else FLAGS
    with concrete():
        env, h, cs, us, td = _tunnel_up(flags)
        if td:
            return fail('teardown on CONNECT')
        if len(env.connects) != 1 or env.connects[0][0] != ('h.example', 443):
            return fail('connect target', connects=repr(env.connects))
        if cat(h.work.buffer) != ACK:
            return fail('acknowledgement is not exactly the 200 packet', got=repr(cat(h.work.buffer)))
    cs.mode = us.mode = 'class'
    cs.sendscript = [s0, s1]
    us.sendscript = [t0, t1]
    cdata = [B(c0, c1), B(c1, c0), B(c0, c0)]
    udata = [B(u0, u1), B(u1, u0), B(u0, u0)]
    c_sent = b''
    u_sent = b''
    if 'm0' in CFG:
        if m0 != CFG['m0']:
            return skip()
        m0 = CFG['m0']
    masks = [MASKS[m0], MASKS[m1], MASKS[m2]]
    ci = ui = 0
    for i, e in enumerate(events):
        if e == 'C':
            cs.inq.append(cdata[ci])
            c_sent = c_sent + cdata[ci]
            ci += 1
        elif e == 'U':
            us.inq.append(udata[ui])
            u_sent = u_sent + udata[ui]
            ui += 1
        try:
            td = _step(h, cs, us, masks[i])
        except Exception as ex:
            return fail('exception left handle_events', exc=repr(ex), step=i)
        if td:
            return fail('tunnel torn down although no peer closed', step=i)
        if cs.out + envkit.pending(h.work) != ACK + _consumed(u_sent, us):
            return fail('client stream: delivered + pending != ack + upstream bytes read', step=i,
                        out=repr(cs.out), pend=repr(envkit.pending(h.work)))
        if us.out + envkit.pending(h.plugin.upstream) != _consumed(c_sent, cs):
            return fail('upstream stream: delivered + pending != client bytes read', step=i,
                        out=repr(us.out), pend=repr(envkit.pending(h.plugin.upstream)))
    for j in range(10):
        if cs.out == ACK + u_sent and us.out == c_sent:
            break
        try:
            td = _step(h, cs, us, 15)
        except Exception as ex:
            return fail('exception left handle_events while draining', exc=repr(ex))
        if td:
            return fail('tunnel torn down while draining')
    if cs.out != ACK + u_sent:
        return fail('client did not receive ack + all upstream bytes', out=repr(cs.out), want=repr(ACK + u_sent))
    if us.out != c_sent:
        return fail('upstream did not receive all client bytes', out=repr(us.out), want=repr(c_sent))
    if h.work.has_buffer() or h.plugin.upstream.has_buffer():
        return fail('buffers not empty after everything was delivered')
    return ok()


# --------------------------------------------------------------------------- #
# (3) http_relay: plain HTTP exchange; response templates x cuts x short writes
# --------------------------------------------------------------------------- #
def response(tpl, d0, d1, d2):
    if tpl == 'cl0':
        return b'HTTP/1.1 204 No Content\r\nContent-Length: 0\r\n\r\n'
    if tpl == 'cl3':
        return b'HTTP/1.1 200 OK\r\nContent-Length: 3\r\n\r\n' + B(d0, d1, d2)
    if tpl == 'ch21':
        return b'HTTP/1.1 200 OK\r\nTransfer-Encoding: chunked\r\n\r\n2\r\n' + B(d0, d1) + b'\r\n1\r\n' + B(d2) + b'\r\n0\r\n\r\n'
    if tpl == 'ch_ext_tr':
        return (b'HTTP/1.1 200 OK\r\nTransfer-Encoding: chunked\r\n\r\n2;n=v\r\n' + B(d0, d1) +
                b'\r\n0\r\nTrailer' + B(d2) + b'\r\n\r\n')
    if tpl == 'close':
        return b'HTTP/1.0 200 OK\r\nConnection: close\r\n\r\n' + B(d0, d1, d2)
    if tpl == '100':
        return b'HTTP/1.1 100 Continue\r\n\r\nHTTP/1.1 200 OK\r\nContent-Length: 2\r\n\r\n' + B(d0, d1)
    if tpl == 'two':
        return (b'HTTP/1.1 200 OK\r\nContent-Length: 1\r\n\r\n' + B(d0) +
                b'HTTP/1.1 404 Not Found\r\nContent-Length: 2\r\n\r\n' + B(d1, d2))
    if tpl == 'noheaders':
        return b'HTTP/1.1 200 OK\r\n\r\n'
    raise ValueError(tpl)


def http_relay(d0: int, d1: int, d2: int, s0: int, s1: int) -> bool:
    """
    pre: 0 <= d0 < 256 and 0 <= d1 < 256 and 0 <= d2 < 256
    pre: -1 <= s0 <= 2 and -1 <= s1 <= 2
    post: _
    """
    begin()
    tpl = CFG['tpl']
    cuts = CFG['cuts']
    if tpl == 'ch_ext_tr' and not (33 <= d2 <= 126 and d2 != 58):
        return skip()       # the trailer field-name byte must be a token character
    flags = FLAGS_SMALL if CFG.get('small') else FLAGS
    with concrete():
        env = envkit.new_env()
        h, cs = envkit.make_handler(flags, env)
        cs.inq.append(b'GET http://o.example/x HTTP/1.1\r\nHost: o.example\r\n\r\n')
        if run(h.handle_events([cs.fd], [])):
            return fail('teardown on request')
        us = env.connects[0][1]
        # request goes out
        for j in range(80):
            if _step(h, cs, us, 15):
                return fail('teardown while forwarding request')
            if j >= 3 and not h.plugin.upstream.has_buffer():
                break
        if not us.out.startswith(b'GET /x HTTP/1.1\r\n'):
            return fail('request not forwarded', out=repr(us.out))
    cs.mode = 'class'
    R = response(tpl, d0, d1, d2)
    pieces = []
    prev = 0
    for c in cuts:
        if c >= len(R):
            return skip()
        pieces.append(R[prev:c])
        prev = c
    pieces.append(R[prev:])
    # client accepts bytes slowly / partially according to the symbolic script
    cs.sendscript = [0] * cs.si + [s0, s1]
    sent = b''
    for p in pieces:
        us.inq.append(p)
        sent = sent + p
        try:
            td = _step(h, cs, us, 15)
        except Exception as ex:
            return fail('exception left handle_events for a well-formed response', exc=repr(ex))
        if td:
            return fail('teardown in the middle of a response')
        if cs.out + envkit.pending(h.work) != sent:
            return fail('client stream: delivered + pending != upstream bytes so far',
                        out=repr(cs.out), pend=repr(envkit.pending(h.work)), sent=repr(sent))
    if CFG.get('eof'):
        # the upstream closes right behind its last byte, while the client may not have drained yet:
        # the proxy may ask for teardown only once everything it received has been handed to the client socket
        us.inq.append(b'')
        for j in range(2 * len(R) + 10):
            try:
                td = _step(h, cs, us, 15)
            except Exception as ex:
                return fail('exception left handle_events after upstream EOF', exc=repr(ex))
            if td:
                if h.work.has_buffer() or cs.out != R:
                    return fail('teardown requested while upstream bytes are still undelivered (they are lost at close)',
                                out_len=len(cs.out), want_len=len(R), pending=len(envkit.pending(h.work)))
                return ok()
        return fail('connection not ended after upstream EOF and a drained client')
    for j in range(len(R) + 12):          # (--max-sendbuf-size 2 hands over at most two bytes per iteration)
        if cs.out == R:
            break
        try:
            td = _step(h, cs, us, 15)
        except Exception as ex:
            return fail('exception left handle_events while draining', exc=repr(ex))
        if td:
            return fail('teardown while draining')
    if cs.out != R:
        return fail('client did not receive the response unmodified', out=repr(cs.out), want=repr(R))
    return ok()


def obligations(tier):
    obs = []
    lens_set = [[], [1], [2], [3], [1, 1], [1, 2], [2, 1], [3, 1], [1, 3], [2, 2], [0], [0, 1], [1, 0], [0, 0]]
    for lens in lens_set:
        nm = 'x'.join(map(str, lens)) or 'empty'
        for ms in (None, 1, 2, 3):
            obs.append({'name': 'conn.flush.%s.max%s' % (nm, ms), 'fn': 'conn_step', 'group': 'conn_step',
                        'cfg': {'lens': lens, 'op': 'flush', 'max_send': ms}, 'timeout': 60})
        for xl in (0, 1, 2):
            obs.append({'name': 'conn.queue.%s.x%d' % (nm, xl), 'fn': 'conn_step', 'group': 'conn_step',
                        'cfg': {'lens': lens, 'op': 'queue', 'xlen': xl}, 'timeout': 60})
    import itertools
    bufs = [[], [1], [1, 2]] if tier == 'quick' else [[], [1], [3], [1, 2], [2, 1]]
    for cb in bufs:
        for ub in bufs:
            for cin in (0, 2) if tier == 'quick' else (0, 1, 2):
                for uin in (0, 2) if tier == 'quick' else (0, 1, 2):
                    for small in (False, True):
                        if small and tier == 'quick' and (cin or uin):
                            continue
                        obs.append({'name': 'tunnel_step.c%s.u%s.cin%d.uin%d%s' % ('x'.join(map(str, cb)) or '0', 'x'.join(map(str, ub)) or '0',
                                                                                    cin, uin, '.small' if small else ''),
                                    'fn': 'tunnel_step', 'group': 'tunnel_step',
                                    'cfg': {'cbuf': cb, 'ubuf': ub, 'cin': cin, 'uin': uin, 'small': small}, 'timeout': 300})
    k = 2 if tier == 'quick' else 3
    for ev in itertools.product('CU-', repeat=k):
        ev = ''.join(ev)
        if ev.count('C') + ev.count('U') == 0:
            continue
        if k == 3 and '-' in ev:
            continue        # 3-step schedules with an idle step add nothing over the 2-step ones + inductive tunnel_step
        for m0 in (0, 1, 2):
            obs.append({'name': 'tunnel.%s.m%d' % (ev, m0), 'fn': 'tunnel', 'group': 'tunnel',
                        'cfg': {'events': ev, 'm0': m0}, 'timeout': 300 if tier == 'quick' else 1200})
    for tpl in ('cl0', 'cl3', 'ch21', 'ch_ext_tr', 'close', '100', 'two', 'noheaders'):
        R = response(tpl, 1, 2, 65)
        n = len(R)
        obs.append({'name': 'relay.%s.whole' % tpl, 'fn': 'http_relay', 'group': 'http_relay',
                    'cfg': {'tpl': tpl, 'cuts': []}, 'timeout': 120})
        if tpl in ('close', 'cl3', 'ch21'):
            for c in ([], [n - 2], [20]):
                obs.append({'name': 'relay.%s.eof.cut%s' % (tpl, '_'.join(map(str, c)) or 'none'), 'fn': 'http_relay', 'group': 'http_relay',
                            'cfg': {'tpl': tpl, 'cuts': c, 'eof': True, 'small': True}, 'timeout': 200})
        for c in range(1, n):
            if tier == 'quick' and c < n - 14 and c % 7 != 0:
                continue
            obs.append({'name': 'relay.%s.cut%d' % (tpl, c), 'fn': 'http_relay', 'group': 'http_relay',
                        'cfg': {'tpl': tpl, 'cuts': [c]}, 'timeout': 120})
        if tier == 'thorough':
            for c1 in range(max(1, n - 12), n):
                for c2 in range(c1 + 1, n):
                    obs.append({'name': 'relay.%s.cut%d_%d' % (tpl, c1, c2), 'fn': 'http_relay', 'group': 'http_relay',
                                'cfg': {'tpl': tpl, 'cuts': [c1, c2], 'small': True}, 'timeout': 240})
    return obs


META = {
    'bounds': {
        'quick': 'conn_step: any buffer of <=2 elements of 1..3 symbolic bytes, one queue(0..2 bytes) or one flush(max None/1/2/3) '
                 'with send outcome in {EPIPE, ECONNRESET, EAGAIN, 0..5}; tunnel: every 3-step schedule over {client segment, '
                 'upstream segment, nothing}, 2-byte symbolic segments, per step a symbolic subset of ready descriptors is reported, '
                 'symbolic short-write/would-block outcomes on both sockets, then a fair drain; http relay: 8 response framings '
                 '(CL 0/3, chunked, chunked+extension+trailer, close-delimited, 100+final, two back-to-back, header-less) with 3 '
                 'symbolic body bytes, delivered whole and cut at every position, 4 symbolic client send outcomes',
        'thorough': 'tunnel_step over 5 buffer shapes x 3 unread-segment lengths per side; tunnel: all 3-step schedules of arrivals; relay: additionally every pair of '
                    'cuts in the last 12 bytes with --max-sendbuf-size 2',
    },
    'outside': 'payloads beyond 3 bytes per segment and 4 steps (so no multi-megabyte transfers); kernel TCP behaviour; '
               'more than two cuts per response; TLS-wrapped sockets',
    'stubs': ['FakeSocket: recv returns scripted segments, send accepts a solver-chosen prefix or raises EAGAIN/EPIPE/ECONNRESET',
              'connect stub (new_socket_connection) returns a FakeSocket', 'selector replaced by harness _step(): reports a '
              'solver-chosen subset of ready descriptors among those the real get_events() asked for',
              'time.time replaced by constant integer clock', 'logging no-ops; %-formatting with symbolic args opaque'],
}
