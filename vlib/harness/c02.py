"""C02 — the forwarded HTTP request is semantically identical to the client's.

Real code: HttpProtocolHandler.handle_data/_parse_first_request, HttpParser.parse/_process_*/build/_get_body_or_chunks/
del_headers/add_headers, HttpProxyPlugin.on_request_complete/on_client_data, build_http_request/build_http_pkt,
ChunkParser.to_chunks, Url.from_bytes.
"""
from proxy.common.flag import FlagParser
from proxy.common.constants import PROXY_AGENT_HEADER_VALUE

from vlib import envkit, refhttp
from vlib.hk import CFG, begin, ok, fail, skip, B, run, cat, concrete

envkit.install()
FLAGS = FlagParser.initialize(['--threadless', '--disable-headers', 'x-drop,X-Also-Drop'])
METHODS = [b'GET', b'POST', b'PUT', b'DELETE', b'OPTIONS', b'PATCH', b'HEAD']
VIA = b'1.1 ' + PROXY_AGENT_HEADER_VALUE


def _spell(name, c0):
    """The framing header's name as the client spells it: canonical, or (CFG['lower']) with a symbolic-case first letter."""
    if not CFG.get('lower'):
        return name
    return B(name[0] + (c0 - 65)) + name[1:].lower()      # c0 is 65 or 97: 'C'/'c', 'T'/'t'


def assemble(m0, m1, m2, p0, p1, c0, v0, v1, w0, sp, d0, d1, d2):
    """Returns (wire bytes, expectation dict) for the configured shape."""
    mi = CFG['method']
    method = B(m0, m1, m2) if mi < 0 else METHODS[mi]
    path = b'/' + B(p0, p1)[:CFG['plen']]
    target = b'http://h.example' + (b':8080' if CFG.get('port') else b'') + path
    hdrs = []                       # (name as sent, value as sent (no OWS), leading OWS)
    hdrs.append((b'Host', b'h.example', b' '))
    nh = CFG['nheaders']
    if nh >= 1:
        name = b'X-' + B(c0)        # c0 is 'a' or 'A' .. any letter case
        hdrs.append((name, B(v0, v1)[:CFG['vlen']], b' ' if sp else b''))
    if nh >= 2:
        hdrs.append((b'accept', B(w0), b'  ' if sp else b' '))
    extra = CFG.get('extra', '')
    if 'c' in extra:
        hdrs.append((b'Proxy-Connection', b'keep-alive', b' '))
    if 'a' in extra:
        hdrs.append((b'proxy-authorization', b'Basic eDp5', b' '))
    if 'd' in extra:
        hdrs.append((b'X-Drop', b'1', b' '))
        hdrs.append((b'x-also-drop', b'2', b' '))
    body = B(d0, d1, d2)[:CFG['blen']]
    framing = CFG['framing']          # none | cl | chunked
    wire_body = b''
    if framing == 'cl':
        hdrs.append((_spell(b'Content-Length', c0), b'%d' % CFG['blen'], b' '))
        wire_body = body
    elif framing == 'chunked':
        hdrs.append((_spell(b'Transfer-Encoding', c0), b'chunked', b' '))
        i = 0
        for sz in CFG['layout']:
            wire_body = wire_body + (b'%x' % sz) + b'\r\n' + body[i:i + sz] + b'\r\n'
            i += sz
        wire_body = wire_body + b'0\r\n\r\n'
    wire = method + b' ' + target + b' HTTP/1.1\r\n'
    for n, v, ows in hdrs:
        wire = wire + n + b':' + ows + v + b'\r\n'
    wire = wire + b'\r\n' + wire_body
    exp_headers = []
    for n, v, ows in hdrs:
        ln = n.lower()
        if ln in (b'proxy-connection', b'proxy-authorization', b'x-drop', b'x-also-drop'):
            continue
        exp_headers.append((ln, v))
    return wire, {'method': method, 'path': path, 'headers': exp_headers, 'body': body, 'framing': framing}


def check_forwarded(sent, exp):
    try:
        m = refhttp.read_message(sent, False)
    except refhttp.Malformed as e:
        return 'forwarded request rejected by the reference reader: %s' % e, sent
    if m['remainder'] != b'':
        return 'bytes after the forwarded request', m['remainder']
    if m['start'][0] != exp['method']:
        return 'method differs', m['start'][0]
    if m['start'][1] != exp['path']:
        return 'target is not the origin-form of the client\'s target', m['start'][1]
    if m['start'][2] != b'HTTP/1.1':
        return 'version differs', m['start'][2]
    got = [(k, v) for k, n, v in m['headers']]
    via = [v for k, v in got if k == b'via']
    if len(via) != 1 or via[0] != VIA:
        return 'Via field naming the proxy is missing', repr(via)
    for k, v in got:
        if k in (b'proxy-connection', b'proxy-authorization', b'x-drop', b'x-also-drop'):
            return 'hop-by-hop / disabled header forwarded', k
    # header MULTISET (names case-insensitively, values byte-exact): every client header exactly once, nothing else
    rest = [(k, v) for k, v in got if k != b'via']
    for kv in exp['headers']:
        if kv not in rest:
            return 'a client header is missing or altered', repr(kv)
        rest.remove(kv)
    for kv in rest:
        return 'a header the client did not send was added (or one was duplicated)', repr(kv)
    if m['body'] != exp['body']:
        return 'decoded body differs', m['body']
    if exp['framing'] == 'chunked' and m['framing'] != 'chunked':
        return 'chunked framing lost', m['framing']
    if exp['framing'] == 'cl' and len(exp['body']) > 0 and m['framing'] != 'cl':
        return 'content-length framing lost', m['framing']
    return None, None


def forward(m0: int, m1: int, m2: int, p0: int, p1: int, c0: int, v0: int, v1: int, w0: int, sp: int,
            d0: int, d1: int, d2: int) -> bool:
    """
    pre: 65 <= m0 <= 90 and 65 <= m1 <= 90 and 65 <= m2 <= 90
    pre: 33 <= p0 <= 126 and 33 <= p1 <= 126 and 33 <= v0 <= 126 and 33 <= v1 <= 126 and 33 <= w0 <= 126
    pre: c0 == 97 or c0 == 65
    pre: 0 <= sp <= 1
    pre: 0 <= d0 < 256 and 0 <= d1 < 256 and 0 <= d2 < 256
    post: _
    """
    begin()
    if p0 == 35 or p1 == 35:
        return skip()            # '#': fragments are never sent
    if p0 == 47 and CFG['plen'] >= 1:
        pass
    wire, exp = assemble(m0, m1, m2, p0, p1, c0, v0, v1, w0, sp, d0, d1, d2)
    if CFG['method'] < 0 and exp['method'] == b'CONNECT'[:3]:
        pass
    cuts = CFG.get('cuts', [])
    second = CFG.get('second', False)
    with concrete():
        env = envkit.new_env()
        if CFG.get('prior_conn'):
            # an earlier, unrelated connection of the same process whose request nominates hop-by-hop headers in its Connection
            # header: whatever the proxy does for THAT request must not change how later connections are forwarded
            h0, cs0 = envkit.make_handler(FLAGS, env, name='earlier')
            cs0.inq.append(b'GET http://h.example/p HTTP/1.1\r\nHost: h.example\r\nConnection: keep-alive, X-A, Accept\r\nX-A: 1\r\n'
                           b'Accept: q\r\n\r\n')
            if run(h0.handle_events([cs0.fd], [])):
                return fail('teardown on the earlier connection')
        h, cs = envkit.make_handler(FLAGS, env)
        if second:
            cs.inq.append(b'GET http://h.example/first HTTP/1.1\r\nHost: h.example\r\n\r\n')
            if run(h.handle_events([cs.fd], [])):
                return fail('teardown on the first request')
            if second == 'after_chunked':
                # ... and a chunked POST as second request: the request under test is the THIRD of the connection
                cs.inq.append(b'POST http://h.example/second HTTP/1.1\r\nHost: h.example\r\nTransfer-Encoding: chunked\r\n\r\n2\r\nzz\r\n0\r\n\r\n')
                if run(h.handle_events([cs.fd], [])):
                    return fail('teardown on the second request')
    skipn = len(envkit.pending(h.plugin.upstream)) if second else 0
    pieces = []
    prev = 0
    for c in cuts:
        if c >= len(wire):
            return skip()
        pieces.append(wire[prev:c])
        prev = c
    pieces.append(wire[prev:])
    for i, p in enumerate(pieces):
        cs.inq.append(p)
        try:
            td = run(h.handle_events([cs.fd], []))
        except Exception as e:
            return fail('exception left handle_events', exc=repr(e), piece=i)
        if td or h.must_flush_before_shutdown:
            return fail('well-formed request rejected', out=repr(cat(h.work.buffer)[:60]), piece=i)
        if i < len(pieces) - 1 and h.plugin is not None and not second:
            if len(envkit.pending(h.plugin.upstream)) > 0:
                return fail('request forwarded before it was completely received', piece=i)
    if h.plugin is None or h.plugin.upstream is None:
        return fail('request not served (stalled)', state=h.request.state)
    sent = envkit.pending(h.plugin.upstream)[skipn:]
    if len(sent) == 0:
        return fail('nothing forwarded although the request is complete (stalled)')
    why, what = check_forwarded(sent, exp)
    if why is not None:
        return fail(why, what=repr(what), sent=repr(sent[:200]))
    mine = env.connects[1:] if CFG.get('prior_conn') else env.connects
    if len(mine) != 1 or mine[0][0] != ('h.example', 8080 if CFG.get('port') else 80):
        return fail('connected elsewhere', connects=repr(env.connects))
    return ok()


def selftest():
    return refhttp.selftest()


def _sample_wire(cfg):
    from vlib import hk
    saved = dict(hk.CFG)
    hk.CFG.clear()
    hk.CFG.update(cfg)
    w, _ = assemble(71, 69, 84, 97, 98, 97, 120, 121, 122, 1, 1, 2, 3)
    hk.CFG.clear()
    hk.CFG.update(saved)
    return w


def _len_of(cfg):
    from vlib import hk
    saved = dict(hk.CFG)
    hk.CFG.clear()
    hk.CFG.update(cfg)
    w, _ = assemble(71, 69, 84, 97, 98, 97, 120, 121, 122, 1, 1, 2, 3)
    hk.CFG.clear()
    hk.CFG.update(saved)
    return len(w)


def obligations(tier):
    obs = []
    T = 400
    base = {'method': 0, 'plen': 1, 'nheaders': 1, 'vlen': 2, 'blen': 0, 'framing': 'none', 'layout': [], 'extra': ''}

    def add(name, **kw):
        c = dict(base)
        c.update(kw)
        obs.append({'name': name, 'fn': 'forward', 'cfg': c, 'timeout': T})
    for mi in range(len(METHODS)):
        add('method.%s' % METHODS[mi].decode(), method=mi, nheaders=0)
    add('method.sym3', method=-1, nheaders=0)
    for nh in (0, 1, 2):
        for extra in ('', 'c', 'a', 'd', 'cad'):
            if tier == 'quick' and nh == 2 and extra not in ('', 'cad'):
                continue
            add('headers.n%d.%s' % (nh, extra or 'plain'), nheaders=nh, extra=extra)
    bodies = [('cl', 0, []), ('cl', 1, []), ('cl', 3, []), ('chunked', 0, []), ('chunked', 1, [1]), ('chunked', 3, [2, 1]), ('chunked', 3, [3])]
    for fr, bl, lay in bodies:
        nm = '%s.b%d%s' % (fr, bl, ('.' + 'x'.join(map(str, lay))) if lay else '')
        add('body.%s' % nm, method=1, framing=fr, blen=bl, layout=lay)
        add('body.%s.second' % nm, method=1, framing=fr, blen=bl, layout=lay, second=True)
        add('body.%s.third' % nm, method=1, framing=fr, blen=bl, layout=lay, second='after_chunked')
        add('body.%s.lower' % nm, method=1, framing=fr, blen=bl, layout=lay, lower=True)
        add('body.%s.lower.second' % nm, method=1, framing=fr, blen=bl, layout=lay, lower=True, second=True)
        # segmentation: every cut position in the body region, a few in the head
        cfg = dict(base, method=1, framing=fr, blen=bl, layout=lay, nheaders=0)
        n = _len_of(cfg)
        head = n - (bl + {'cl': 0, 'chunked': 5 + 5 * len(lay)}[fr])
        cutset = sorted(set([1, 5, 20, head - 3, head - 2, head - 1] + list(range(head, n))))
        if tier == 'quick':
            cutset = [c for c in cutset if c >= head - 2 or c in (5,)]
        for c in cutset:
            if 0 < c < n:
                add('cut.%s.at%d' % (nm, c), method=1, framing=fr, blen=bl, layout=lay, nheaders=0, cuts=[c])
        # the same request as SECOND request of the connection, cut wherever the next read would start with CR or LF
        w = _sample_wire(cfg)
        crlf_cuts = [i for i in range(1, n) if w[i] in (13, 10)]
        if tier == 'quick':
            crlf_cuts = [c for c in crlf_cuts if c >= head - 4 or c < 40][:7]
        for c in crlf_cuts:
            add('cut.%s.second.at%d' % (nm, c), method=1, framing=fr, blen=bl, layout=lay, nheaders=0, cuts=[c], second=True)
        if tier == 'thorough':
            for c1 in range(max(1, head - 2), n):
                for c2 in range(c1 + 1, n):
                    add('cut.%s.at%d_%d' % (nm, c1, c2), method=1, framing=fr, blen=bl, layout=lay, nheaders=0, cuts=[c1, c2])
    add('headers.n2.after_nominating_connection', nheaders=2, prior_conn=True)
    add('headers.n2.cad.after_nominating_connection', nheaders=2, extra='cad', prior_conn=True)
    add('second.plain', second=True)
    add('second.cad', second=True, extra='cad')
    add('port.explicit', port=True)
    add('path.len2', plen=2, nheaders=0)
    add('path.len0', plen=0, nheaders=0)
    return obs


META = {
    'bounds': {
        'quick': 'methods GET/POST/PUT/DELETE/OPTIONS/PATCH/HEAD and one token of 3 symbolic upper-case letters; absolute-form target with 0..2 '
                 'symbolic visible path bytes; 0..2 extra headers (symbolic name case, 1-2 symbolic visible value bytes, symbolic optional '
                 'leading space) plus optional Proxy-Connection, Proxy-Authorization and two operator-disabled headers; body none / '
                 'Content-Length 0,1,3 symbolic bytes / chunked layouts [],[1],[2,1],[3], framing header name spelled canonically or in lower case with a '
                 'symbolic-case first letter; delivered whole and cut at every position of the body '
                 'region and selected head positions; as first, as second and (after a chunked second request) as third request of the connection; after an earlier connection of the same '
                 'process whose request nominated headers in Connection',
        'thorough': 'plus every pair of cuts in the body region',
    },
    'outside': 'header values with internal whitespace, obs-fold, duplicate names (excluded by the property); more than 3 body bytes; '
               'requests inside an intercepted TLS session (forwarded as received by design, see C11)',
    'stubs': ['FakeSocket client, connect stub; forwarded bytes read from the upstream connection\'s pending buffer',
              'reference reader vlib/refhttp.py (cross-checked against h11 on every run)'],
}
