"""Environment kit: nondeterministic stubs for everything proxy.py asks of the OS
(DESIGN §1.6). Every stub here is part of every claim that uses it.

All stubs are ordinary Python objects, so the same harness runs natively (replay)
and under CrossHair (symbolic values flow through them).
"""
import errno
import selectors
import socket
import ssl

from vlib.hk import cat

# send() outcome codes (anything >= 0 is "accept that many bytes, at most len(data)")
WOULD_BLOCK = -1
BROKEN_PIPE = -2
OS_ERROR = -3


class Env:
    """Per-harness-invocation world: fd numbering, connect script, clock."""

    def __init__(self):
        self.next_fd = 100
        self.fd_reuse = False       # True: a new socket gets the lowest descriptor number not in use (what the kernel does)
        self.sockets = []
        self.connects = []          # (addr, FakeSocket | exception)
        self.connect_script = []    # per connect attempt: None=ok | exception instance
        self.clock = 1000
        self.upstream_factory = None
        self.wraps = []             # TLS wrap records
        self.wrap_faults = {}       # client socket name -> exception raised by the TLS handshake at admission
        self.os_closed = []         # descriptors handed to os.close() by the executor (remote mode)
        self.events = []            # free-form log

    def sock(self, name):
        s = FakeSocket(name, self)
        return s

    def new_socket_connection(self, addr, timeout=None, source_address=None):
        i = len(self.connects)
        outcome = self.connect_script[i] if i < len(self.connect_script) else None
        if outcome is not None:
            self.connects.append((addr, outcome))
            raise outcome
        s = self.upstream_factory(addr) if self.upstream_factory else self.sock('upstream%d' % i)
        s.addr = addr
        s.source_address = source_address
        self.connects.append((addr, s))
        return s


class FakeSocket:
    def __init__(self, name, env):
        self.name = name
        self.env = env
        if env.fd_reuse:
            used = set(x.fd for x in env.sockets if not x.closed)
            fd = 100
            while fd in used:
                fd += 1
            self.fd = fd
        else:
            self.fd = env.next_fd
            env.next_fd += 1
        env.sockets.append(self)
        self.inq = []          # items: bytes segment | b'' (EOF) | Exception instance
        self.out = b''         # every byte accepted by send(), in order
        self.sends = []        # (offered_len, accepted) per call
        self.sendscript = []   # outcome codes, consumed one per send(); default = accept all
        self.si = 0
        self.closed = False
        self.shut = False
        self.blocking = True
        self.misuse = []       # operations attempted after close()
        self.out_at_close = None
        self.addr = None
        self.mode = 'exact'    # meaning of sendscript entries >= 0, see send()
        self.was_reset = False
        self.at_eof = False    # end-of-stream has been delivered: readable for ever after

    def __repr__(self):
        return '<FakeSocket %s fd=%d>' % (self.name, self.fd)

    # --- socket API subset used by proxy.py ---------------------------------
    def fileno(self):
        return -1 if self.closed else self.fd

    def setblocking(self, b):
        self.blocking = b

    def settimeout(self, t):
        pass

    def recv(self, n):
        if self.closed:
            self.misuse.append('recv')
            raise OSError(errno.EBADF, 'Bad file descriptor')
        if not self.inq:
            if self.at_eof:
                return b''              # a socket whose peer has closed stays readable and keeps returning end-of-stream
            raise BlockingIOError(errno.EAGAIN, 'would block')
        item = self.inq.pop(0)
        if isinstance(item, bytes) and len(item) == 0:
            self.at_eof = True
        if isinstance(item, BaseException):
            if isinstance(item, ConnectionResetError):
                self.was_reset = True
            raise item
        if len(item) > n:
            self.inq.insert(0, item[n:])
            item = item[:n]
        return item

    def recv_into(self, buffer, nbytes=0, flags=0):
        data = self.recv(nbytes or len(buffer))
        n = len(data)
        buffer[:n] = data
        return n

    def send(self, data):
        if self.closed:
            self.misuse.append('send')
            raise OSError(errno.EBADF, 'Bad file descriptor')
        n = len(data)
        scripted = self.si < len(self.sendscript)
        k = self.sendscript[self.si] if scripted else n
        self.si += 1
        if k == WOULD_BLOCK:
            self.sends.append((n, 'EAGAIN'))
            raise BlockingIOError(errno.EAGAIN, 'would block')
        if k == BROKEN_PIPE:
            self.sends.append((n, 'EPIPE'))
            raise BrokenPipeError(errno.EPIPE, 'broken pipe')
        if k == OS_ERROR:
            self.sends.append((n, 'ECONNRESET'))
            raise ConnectionResetError(errno.ECONNRESET, 'reset')
        if not scripted:
            k = n
        elif self.mode == 'fair':
            # like 'class', but every write accepts at least one byte (the peer keeps reading); 4 = one spurious wake-up: the selector
            # reported the socket writable but this send() would block (the script is finite, so the socket accepts data again later)
            if k == 4:
                self.sends.append((n, 'EAGAIN'))
                raise BlockingIOError(errno.EAGAIN, 'would block')
            if k == 0:
                k = n
            elif k == 1:
                k = min(1, n)
            elif k == 2:
                k = max(n - 1, min(1, n))
            else:
                k = max(n // 2, min(1, n))
        elif self.mode == 'class':
            # k names a class of outcome: 0 everything, 1 one byte, 2 all but one byte, >=3 half
            if k == 0:
                k = n
            elif k == 1:
                k = min(1, n)
            elif k == 2:
                k = max(n - 1, 0)
            else:
                k = n // 2
        else:
            # k is a byte count; concretise it (n+1 way case split) so that slices keep concrete lengths
            if k > n:
                k = n
            if k < 0:
                k = 0
            for kk in range(n + 1):
                if k == kk:
                    k = kk
                    break
        part = data[:k]
        self.out = self.out + (part.tobytes() if isinstance(part, memoryview) else part)
        self.sends.append((n, k))
        return k

    def shutdown(self, how):
        if self.closed:
            self.misuse.append('shutdown')
            raise OSError(errno.EBADF, 'Bad file descriptor')
        if self.was_reset:
            raise OSError(errno.ENOTCONN, 'Transport endpoint is not connected')      # what shutdown() does after an RST
        self.shut = True

    def close(self):
        if not self.closed:
            self.out_at_close = self.out
        self.closed = True

    def getpeername(self):
        return self.addr

    def getpeercert(self, binary=False):
        return b'' if binary else {}


class FakeKey:
    def __init__(self, fd, events, data):
        self.fileobj = fd
        self.fd = fd
        self.events = events
        self.data = data


class FakeSelector:
    """dict-backed selector with the real error behaviour of selectors.BaseSelector."""

    def __init__(self):
        self.map = {}
        self.ready = []      # list of (fd, mask) the "kernel" reports on next select()
        self.closed = False
        self.log = []
        self.auto = None     # {fd: FakeSocket}: derive readiness from the sockets
        self.report = {}     # fd -> mask the 'kernel' is willing to report this round (default everything)
        self.nselect = 0

    def _fd(self, fileobj):
        fd = fileobj if isinstance(fileobj, int) else fileobj.fileno()
        if fd < 0:
            raise ValueError('Invalid file descriptor: %r' % (fd,))
        return fd

    def register(self, fileobj, events, data=None):
        fd = self._fd(fileobj)
        if not events or events & ~(selectors.EVENT_READ | selectors.EVENT_WRITE):
            raise ValueError('Invalid events: %r' % (events,))
        if fd in self.map:
            raise KeyError('%r (FD %d) is already registered' % (fileobj, fd))
        self.map[fd] = FakeKey(fd, events, data)
        self.log.append(('register', fd, events))
        return self.map[fd]

    def modify(self, fileobj, events, data=None):
        fd = self._fd(fileobj)
        if fd not in self.map:
            raise KeyError('%r is not registered' % (fileobj,))
        self.map[fd] = FakeKey(fd, events, data)
        self.log.append(('modify', fd, events))
        return self.map[fd]

    def unregister(self, fileobj):
        if isinstance(fileobj, int):
            fd = fileobj
        else:
            fd = fileobj.fileno()
            if fd < 0:
                # real selectors fall back to searching by object; our objects never re-register
                fd = getattr(fileobj, 'fd', fd)
        if fd not in self.map:
            raise KeyError('%r is not registered' % (fileobj,))
        self.log.append(('unregister', fd))
        return self.map.pop(fd)

    def select(self, timeout=None):
        if self.auto is not None:
            # readiness derived from the fake sockets: readable when a segment/EOF/error is waiting,
            # writable always, each filtered by the registered interest and by the optional report mask
            out = []
            for fd in sorted(self.map):
                key = self.map[fd]
                s = self.auto.get(fd)
                if s is None:
                    continue
                m = 0
                if (key.events & selectors.EVENT_READ) and (s.inq or s.at_eof):
                    m |= selectors.EVENT_READ
                if key.events & selectors.EVENT_WRITE:
                    m |= selectors.EVENT_WRITE
                m &= self.report.get(fd, 3)
                if m:
                    out.append((key, m))
            self.nselect += 1
            return out
        out = []
        for fd, mask in self.ready:
            if fd in self.map and (self.map[fd].events & mask):
                out.append((self.map[fd], self.map[fd].events & mask))
        self.ready = []
        return out

    def get_map(self):
        return self.map

    def close(self):
        self.closed = True


TASK_ORDER = [0]      # 0: finished tasks are handed back in creation order, 1: in reverse creation order
_TASK_SEQ = [0]


class FakeTask:
    def __init__(self, coro):
        _TASK_SEQ[0] += 1
        self.seq = _TASK_SEQ[0]
        self._exc = None
        self._res = None
        try:
            coro.send(None)
            self._exc = RuntimeError('harness-error: coroutine suspended')
        except StopIteration as e:
            self._res = e.value
        except Exception as e:
            self._exc = e

    def result(self):
        if self._exc is not None:
            raise self._exc
        return self._res


class FakeLoop:
    def __init__(self):
        self.stopped = False

    def create_task(self, coro):
        return FakeTask(coro)

    def stop(self):
        self.stopped = True


async def fake_wait(tasks, timeout=None, return_when=None):
    # asyncio.wait returns a SET of finished tasks: their iteration order is arbitrary. The stub hands them back
    # in creation order or in reverse creation order (TASK_ORDER, chosen by the harness / solver).
    done = sorted(tasks, key=lambda t: t.seq, reverse=bool(TASK_ORDER[0]))
    return done, set()


class ClockModule:
    """Stands in for the `time` module inside proxy modules: integer ticks."""

    def __init__(self, env_ref):
        self.env_ref = env_ref

    def time(self):
        return self.env_ref[0].clock

    def monotonic(self):
        # same rate, unrelated origin (what CLOCK_MONOTONIC is): code that mixes the two clocks shows up
        return self.env_ref[0].clock - 999000

    def perf_counter(self):
        return self.env_ref[0].clock - 999000


ENV = [None]     # current Env, replaced per harness invocation
_CLOCK = ClockModule(ENV)


def _connect(addr, timeout=None, source_address=None):
    return ENV[0].new_socket_connection(addr, timeout, source_address)


def install():
    """Monkey-patch the proxy modules' OS entry points (idempotent)."""
    from proxy.core.connection import server as _srv
    from proxy.http import handler as _h
    from proxy.http.proxy import server as _ps
    from proxy.http.server import web as _web
    from proxy.core.work import threadless as _tl
    _srv.new_socket_connection = _connect
    _h.time = _CLOCK
    _ps.time = _CLOCK
    _web.time = _CLOCK
    _tl.asyncio = _AsyncioShim
    _tl.multiprocessing = _MpShim
    _h.selectors = _SelectorsShim
    from proxy.core.base import tcp_server as _ts
    _ts.wrap_socket = _wrap_client
    _tl.os = _OsShim
    _install_fuel()


def _wrap_client(conn, keyfile, certfile, cafile=None):
    """TLS termination of an accepted client socket (--key-file/--cert-file): the handshake outcome is scripted per socket name in
    Env.wrap_faults (an exception instance to raise); otherwise the fake socket itself plays the TLS socket."""
    env = ENV[0]
    env.events.append(('wrap_client', conn.name))
    fault = env.wrap_faults.get(conn.name)
    if fault is not None:
        raise fault
    return conn


class _OsShim:
    """`os` inside proxy.core.work.threadless: only close() is used there (descriptor received from the acceptor in remote mode)."""

    @staticmethod
    def close(fd):
        ENV[0].os_closed.append(fd)


class Stall(BaseException):
    """Raised by the fuel watchdog: one executor iteration called the input-consuming primitives more often than any terminating
    run can. BaseException so that no `except Exception` of the code under test swallows it."""


FUEL = [None]           # remaining calls of the wrapped primitives in the current executor iteration; None = watchdog off
FUEL_PER_STEP = 400     # far above what a step over <= ~200 input bytes needs (every wrapped call consumes >= 1 byte or ends its loop)


def _install_fuel():
    """Wrap the primitives that every input-driven loop of proxy.py goes through (parser steps, frame parsing, socket reads and
    flushes) with a call counter. A loop that stops making progress (e.g. `while remaining: remaining = frame.parse(remaining)` with a
    parse that consumes nothing) runs out of fuel and surfaces as Stall instead of hanging the check."""
    from proxy.http.parser.parser import HttpParser
    from proxy.http.parser.chunk import ChunkParser
    from proxy.http.websocket.frame import WebsocketFrame
    from proxy.core.connection.connection import TcpConnection
    targets = [(HttpParser, '_process_line'), (HttpParser, '_process_headers'), (HttpParser, '_process_body'), (HttpParser, 'parse'),
               (ChunkParser, 'process'), (WebsocketFrame, 'parse'), (TcpConnection, 'recv'), (TcpConnection, 'flush')]
    for klass, name in targets:
        fn = klass.__dict__[name]
        if getattr(fn, '_fuel_wrapped', False):
            continue

        def mk(fn):
            def wrapped(*a, **kw):
                if FUEL[0] is not None:
                    FUEL[0] -= 1
                    if FUEL[0] < 0:
                        FUEL[0] = None
                        raise Stall('no progress: %s called more than %d times in one iteration' % (fn.__qualname__, FUEL_PER_STEP))
                return fn(*a, **kw)
            wrapped._fuel_wrapped = True
            wrapped.__name__ = fn.__name__
            wrapped.__qualname__ = fn.__qualname__
            wrapped.__doc__ = fn.__doc__
            return wrapped
        setattr(klass, name, mk(fn))


class _AsyncioShim:
    wait = staticmethod(fake_wait)
    FIRST_COMPLETED = 'FIRST_COMPLETED'
    Task = FakeTask
    AbstractEventLoop = FakeLoop


class _Event:
    def __init__(self):
        self._f = False

    def is_set(self):
        return self._f

    def set(self):
        self._f = True


class _MpShim:
    Event = _Event


class _SelectorsShim:
    EVENT_READ = selectors.EVENT_READ
    EVENT_WRITE = selectors.EVENT_WRITE
    DefaultSelector = FakeSelector
    SelectorKey = FakeKey


def new_env():
    e = Env()
    ENV[0] = e
    return e


def make_handler(flags, env, name='client', addr=('10.0.0.1', 40000), uid='w1'):
    """A real HttpProtocolHandler on a fake client socket."""
    from proxy.http.handler import HttpProtocolHandler
    from proxy.http.connection import HttpClientConnection
    cs = env.sock(name)
    h = HttpProtocolHandler(HttpClientConnection(cs, addr), flags=flags, uid=uid)
    h.initialize()
    return h, cs


def pending(conn):
    """Bytes queued on a TcpConnection and not yet handed to the socket."""
    return cat(conn.buffer)


class Executor:
    """A real ThreadlessFdExecutor on FakeLoop/FakeSelector (what the acceptor's event loop does, minus OS)."""

    def __init__(self, flags, env, remote=False):
        from proxy.core.work.fd.fd import ThreadlessFdExecutor

        class _Exec(ThreadlessFdExecutor):
            def __init__(s, flags):
                super().__init__(iid='1', work_queue=None, flags=flags)
                s._l = FakeLoop()
                s.selector = FakeSelector()

            @property
            def loop(s):
                return s._l

            def receive_from_work_queue(s):
                return False

            def work_queue_fileno(s):
                # remote executors own a pipe to the acceptor and must os.close() every descriptor they received over it
                return 99 if remote else None
        self.ex = _Exec(flags)
        self.env = env
        self.ex.selector.auto = {}

    def accept(self, name, addr=('10.0.0.9', 5000)):
        s = self.env.sock(name)
        self.ex.work(s.fd, addr, s)
        self.sync()
        return s

    def sync(self):
        for s in self.env.sockets:
            if not s.closed:
                self.ex.selector.auto[s.fd] = s

    def step(self):
        """One iteration of the executor loop. Returns the exception that escaped, if any."""
        from vlib.hk import run
        self.sync()
        FUEL[0] = FUEL_PER_STEP
        try:
            run(self.ex._run_once())
        except Exception as e:      # noqa
            return e
        except Stall as e:
            return RuntimeError('executor iteration does not terminate (%s): every connection of this worker is stalled' % e)
        finally:
            FUEL[0] = None
        self.sync()
        return None
