"""CrossHair models and instrumentation used by every check (trusted base, DESIGN §1.3).

Importing this module (after ``crosshair.core_and_libs``) registers:

* symbolic ``bytes.split(sep[, maxsplit])`` / ``bytes.split()``
* symbolic ``int(bytes[, 10|16])``
* opaque ``'%..' % sym`` / ``'..'.format(sym)`` (log / exception text only)
* no-op ``logging.Logger.*``
* symbolic ``struct.pack/unpack`` for big-endian B/H/I/Q formats
* a list-backed ``io.BytesIO`` (write/getvalue)

Each model is differentially validated against CPython by ``selftest()``.
"""
import io as _io
import logging
import struct as _struct
import time as _time

import crosshair.core_and_libs  # noqa: F401  (registers builtin patches)
import z3
from crosshair import core as _core
from crosshair.libimpl import builtinslib as B
from crosshair.tracers import NoTracing

# --------------------------------------------------------------------------- #
# solver instrumentation
# --------------------------------------------------------------------------- #
SOLVER = {'queries': 0, 'time_s': 0.0, 'unknown': 0}
_orig_check = z3.Solver.check


def _check(self, *a):
    t = _time.perf_counter()
    r = None
    try:
        r = _orig_check(self, *a)
        return r
    finally:
        SOLVER['queries'] += 1
        SOLVER['time_s'] += _time.perf_counter() - t
        if r is not None and str(r) == 'unknown':
            SOLVER['unknown'] += 1


z3.Solver.check = _check


# --------------------------------------------------------------------------- #
# bytes.split
# --------------------------------------------------------------------------- #
def _split(self, sep=None, maxsplit=-1):
    if sep is None:
        parts = []
        cur = self.lstrip()
        while len(cur) > 0:
            if maxsplit >= 0 and len(parts) >= maxsplit:
                parts.append(cur)
                return parts
            n = len(cur)
            idx = 0
            while idx < n and not B.is_ascii_space_ord(cur[idx]):
                idx += 1
            parts.append(cur[:idx])
            cur = cur[idx:].lstrip()
        return parts
    seppoints = self._ch_operand_points(sep)
    if len(seppoints) == 0:
        raise ValueError('empty separator')
    if maxsplit == 0:
        return [self]
    first = self.find(sep)
    if first == -1:
        return [self]
    ret = [self[:first]]
    new_max = -1 if maxsplit < 0 else maxsplit - 1
    ret.extend(self[first + len(seppoints):].split(sep, new_max))
    return ret


B.BytesLike.split = _split

# --------------------------------------------------------------------------- #
# int(bytes, base)
# --------------------------------------------------------------------------- #
_orig_int = B._int
_MISSING = B._MISSING
_reent = [False]


def _int_model(s, b):
    """Pure-Python model of CPython's int(<bytes>, base) for base 10/16.
    Works on symbolic and concrete byte sequences alike."""
    s = s.strip()
    n = len(s)
    if n == 0:
        raise ValueError('invalid literal for int()')
    neg = False
    start = 0
    if s[0] == 45 or s[0] == 43:
        neg = s[0] == 45
        start = 1
    if b == 16 and n - start >= 2 and s[start] == 48 and (s[start + 1] == 120 or s[start + 1] == 88):
        start += 2
        # CPython allows one underscore right after the 0x prefix
        if n > start and s[start] == 95:
            start += 1
    if n == start:
        raise ValueError('invalid literal for int()')
    ret = 0
    prev_us = True  # underscore not allowed at start
    for i in range(start, n):
        c = s[i]
        if c == 95:
            if prev_us or i == n - 1:
                raise ValueError('invalid literal for int()')
            prev_us = True
            continue
        prev_us = False
        if 48 <= c <= 57:
            d = c - 48
        elif b == 16 and 97 <= c <= 102:
            d = c - 87
        elif b == 16 and 65 <= c <= 70:
            d = c - 55
        else:
            raise ValueError('invalid literal for int()')
        ret = ret * b + d
    return -ret if neg else ret


def _int(val=0, base=_MISSING):
    with NoTracing():
        is_sym_bytes = isinstance(val, B.BytesLike)
    if is_sym_bytes:
        b = 10 if base is _MISSING else base
        if b not in (10, 16):
            return _orig_int(val, base)
        return _int_model(val, b)
    if _reent[0]:
        return int(val) if base is _MISSING else int(val, base)
    _reent[0] = True
    try:
        return _orig_int(val) if base is _MISSING else _orig_int(val, base)
    finally:
        _reent[0] = False


_core._PATCH_REGISTRATIONS[int] = _int


# --------------------------------------------------------------------------- #
# logging: no-ops (formatting of log text is never the subject of a property)
# --------------------------------------------------------------------------- #
def _nolog(self, *a, **k):
    return None


for _n in ('debug', 'info', 'warning', 'error', 'exception', 'critical', 'log'):
    _core._PATCH_REGISTRATIONS[getattr(logging.Logger, _n)] = _nolog
for _n in ('debug', 'info', 'warning', 'error', 'exception', 'critical'):
    _core._PATCH_REGISTRATIONS[getattr(logging, _n)] = (lambda *a, **k: None)


# --------------------------------------------------------------------------- #
# '%' / format with symbolic arguments -> opaque placeholder
# --------------------------------------------------------------------------- #
_PLAIN = (str, bytes, int, float, bool, type(None))


def _has_symbolic(x, depth=0):
    """True when formatting `x` natively would need CrossHair to realise something: a symbolic
    value, or an arbitrary object (CrossHair deep-realises objects it formats, which walks the whole
    object graph and enumerates every symbolic value reachable from it). Called with tracing off."""
    if isinstance(x, B.CrossHairValue):
        return True
    if type(x) in _PLAIN:
        return False
    if depth < 3 and isinstance(x, (tuple, list)):
        return any(_has_symbolic(i, depth + 1) for i in x)
    if depth < 3 and isinstance(x, dict):
        return any(_has_symbolic(i, depth + 1) for i in x.values())
    return True


_orig_pct = _core._PATCH_REGISTRATIONS[str.__mod__]
_reent_pct = [False]


def _is_strlike(x):
    return isinstance(x, (str, B.AnySymbolicStr))


def _simple_pct(fmt, args):
    """'%s'-only formats whose arguments are all (possibly symbolic) strings / plain ints are rendered by concatenation, so
    that values like '%s.pem' % host keep their meaning. Returns None when the format is anything else."""
    parts = fmt.split('%s')
    if len(parts) - 1 != len(args) or any('%' in p.replace('%%', '') for p in parts):
        return None
    out = parts[0].replace('%%', '%')
    for a, p in zip(args, parts[1:]):
        out = out + a + p.replace('%%', '%')
    return out


def _pct(self, other):
    with NoTracing():
        opaque = isinstance(self, str) and _has_symbolic(other)
        args = other if isinstance(other, tuple) else (other,)
        simple = opaque and type(self) is str and all(_is_strlike(a) for a in args)
    if simple:
        r = _simple_pct(self, args)
        if r is not None:
            return r
    if opaque:
        return '<fmt:' + self + '>'
    with NoTracing():
        pass
    if _reent_pct[0]:
        return self.__mod__(other)
    _reent_pct[0] = True
    try:
        return _orig_pct(self, other)
    finally:
        _reent_pct[0] = False


_core._PATCH_REGISTRATIONS[str.__mod__] = _pct

_orig_fmt = _core._PATCH_REGISTRATIONS[str.format]
_reent_fmt = [False]


def _simple_format(fmt, args):
    """'{}' / '{0}'-style positional formats with (possibly symbolic) string arguments, by concatenation."""
    import re as _re
    pieces = _re.split(r'\{(\d*)\}', fmt)
    if any('{' in p or '}' in p for p in pieces[0::2]):
        return None
    out = pieces[0]
    auto = 0
    for i in range(1, len(pieces), 2):
        idx = int(pieces[i]) if pieces[i] != '' else auto
        auto += 1
        if idx >= len(args):
            return None
        out = out + args[idx] + pieces[i + 1]
    return out


def _fmt(self, /, *a, **kw):
    with NoTracing():
        opaque = isinstance(self, str) and (_has_symbolic(a) or _has_symbolic(kw))
        simple = opaque and type(self) is str and not kw and all(_is_strlike(x) for x in a)
    if simple:
        r = _simple_format(self, a)
        if r is not None:
            return r
    if opaque:
        return '<fmt:' + self + '>'
    if _reent_fmt[0]:
        return self.format(*a, **kw)
    _reent_fmt[0] = True
    try:
        return _orig_fmt(self, *a, **kw)
    finally:
        _reent_fmt[0] = False


_core._PATCH_REGISTRATIONS[str.format] = _fmt

if str.format_map in _core._PATCH_REGISTRATIONS:
    _orig_fmtmap = _core._PATCH_REGISTRATIONS[str.format_map]
else:
    _orig_fmtmap = None
_reent_fm = [False]


def _fmtmap(self, mapping):
    with NoTracing():
        if isinstance(self, str) and _has_symbolic(mapping):
            return '<fmt:' + self + '>'
    if _reent_fm[0] or _orig_fmtmap is None:
        return self.format_map(mapping)
    _reent_fm[0] = True
    try:
        return _orig_fmtmap(self, mapping)
    finally:
        _reent_fm[0] = False


_core._PATCH_REGISTRATIONS[str.format_map] = _fmtmap

# --------------------------------------------------------------------------- #
# struct / io.BytesIO
# --------------------------------------------------------------------------- #
_SIZES = {'B': 1, 'H': 2, 'I': 4, 'Q': 8}


def _be(v, n):
    if v < 0 or v >= (1 << (8 * n)):
        raise _struct.error('argument out of range')
    out = []
    for i in range(n):
        out.append((v // (1 << (8 * (n - 1 - i)))) % 256)
    return out


def _pack_model(fmt, *vals):
    codes = fmt[1:]
    if len(codes) != len(vals):
        raise _struct.error('pack expected %d items for packing (got %d)' % (len(codes), len(vals)))
    out = []
    for c, v in zip(codes, vals):
        out.extend(_be(v, _SIZES[c]))
    return bytes(out)


def _unpack_model(fmt, data):
    codes = fmt[1:]
    need = sum(_SIZES[c] for c in codes)
    if len(data) != need:
        raise _struct.error('unpack requires a buffer of %d bytes' % need)
    res = []
    pos = 0
    for c in codes:
        n = _SIZES[c]
        v = 0
        for i in range(n):
            v = v * 256 + data[pos + i]
        pos += n
        res.append(v)
    return tuple(res)


def _modelable(fmt):
    return isinstance(fmt, str) and fmt.startswith('!') and all(c in _SIZES for c in fmt[1:])


def _pack(fmt, *vals):
    with NoTracing():
        sym = _has_symbolic(vals)
    if not sym or not _modelable(fmt):
        return _struct.pack(fmt, *vals)
    return _pack_model(fmt, *vals)


def _unpack(fmt, data):
    with NoTracing():
        sym = isinstance(data, B.CrossHairValue)
    if not sym or not _modelable(fmt):
        return _struct.unpack(fmt, data)
    return _unpack_model(fmt, data)


_core._PATCH_REGISTRATIONS[_struct.pack] = _pack
_core._PATCH_REGISTRATIONS[_struct.unpack] = _unpack


class PyBytesIO:
    """write()/getvalue() subset of io.BytesIO that keeps parts symbolic."""

    def __init__(self, initial=b''):
        self._parts = [initial] if initial else []

    def write(self, b):
        self._parts.append(b)
        return len(b)

    def getvalue(self):
        return b''.join(self._parts)


BYTESIO_MODEL = [False]     # switched on only by harnesses whose code under test uses BytesIO as a write buffer (C16)
_real_bytesio = _io.BytesIO
_core._PATCH_REGISTRATIONS[_io.BytesIO] = lambda *a: (PyBytesIO(*a) if BYTESIO_MODEL[0] else _real_bytesio(*a))


# --------------------------------------------------------------------------- #
# bytes.decode(errors='backslashreplace'): CrossHair models strict/ignore/replace and realises the whole
# input for every other handler. Same loop, with the offending byte rendered as \\xNN symbolically.
# --------------------------------------------------------------------------- #
from crosshair.libimpl.encodings import _encutil as _eu

_orig_decode = _eu.StemEncoder.decode.__func__
_HEX = '0123456789abcdef'


def _hexdigit(v):
    # v in 0..15 (possibly symbolic) -> one-character str, without realising v
    return chr(v + 48 + 39 * (v >= 10))     # branch-free: no fork per nibble


def _decode(cls, input, errors='strict'):
    if errors != 'backslashreplace':
        return _orig_decode(cls, input, errors)
    parts = []
    idx = 0
    inputlen = len(input)
    while idx < inputlen:
        out, idx, err = cls._decode_chunk(input, idx)
        parts.append(out)
        if err is not None:
            b = input[idx]
            parts.append(chr(92) + 'x' + _hexdigit(b // 16) + _hexdigit(b % 16))
            idx += 1
    return ''.join(parts), idx


_eu.StemEncoder.decode = classmethod(_decode)

# --------------------------------------------------------------------------- #
# os.path.normpath (C implementation in 3.12 realises its argument): CPython's own
# pure-Python fallback algorithm, kept symbolic
# --------------------------------------------------------------------------- #
import posixpath as _pp

_real_normpath = _pp.normpath


def _normpath_model(path):
    sep, empty, dot, dotdot = '/', '', '.', '..'
    if path == empty:
        return dot
    initial_slashes = 1 if path.startswith(sep) else 0
    if initial_slashes and path.startswith(sep * 2) and not path.startswith(sep * 3):
        initial_slashes = 2
    comps = path.split(sep)
    new_comps = []
    for comp in comps:
        if comp == empty or comp == dot:
            continue
        if comp != dotdot or (not initial_slashes and not new_comps) or (new_comps and new_comps[-1] == dotdot):
            new_comps.append(comp)
        elif new_comps:
            new_comps.pop()
    path = sep.join(new_comps)
    if initial_slashes:
        path = sep * initial_slashes + path
    return path or dot


def _normpath(path):
    with NoTracing():
        sym = isinstance(path, B.CrossHairValue)
    if sym:
        return _normpath_model(path)
    return _real_normpath(path)


_core._PATCH_REGISTRATIONS[_pp.normpath] = _normpath

# --------------------------------------------------------------------------- #
# self test of the models against CPython (runs natively, ~1 s)
# --------------------------------------------------------------------------- #
class _L(list):
    """Concrete stand-in that routes through the model code: a list of ints with
    bytes-like strip/find/slicing, so the same model source runs natively."""


def selftest():
    import itertools
    errs = []
    # int model, exhaustive over a small alphabet up to length 4 (+ some longer)
    alpha = b'019afAFxX_+- \r;'
    n = 0
    for L in range(0, 5):
        for tup in itertools.product(alpha, repeat=L):
            s = bytes(tup)
            if L == 4 and (tup[0] not in b'0+- 1a' or tup[3] not in b'0_ ;f'):
                continue
            for base in (10, 16):
                try:
                    exp = int(s, base)
                except ValueError:
                    exp = 'VE'
                try:
                    got = _int_model(s, base)
                except ValueError:
                    got = 'VE'
                n += 1
                if exp != got:
                    errs.append(('int', s, base, exp, got))
    # struct model on boundaries
    for fmt, vals in (('!B', (0,)), ('!B', (255,)), ('!B', (256,)), ('!H', (65535,)), ('!H', (65536,)),
                      ('!BH', (254, 126)), ('!BHQ', (255, 1, 65536)), ('!BHQ', (255, 65536)),
                      ('!Q', (2 ** 64 - 1,)), ('!Q', (2 ** 64,)), ('!B', (-1,))):
        try:
            exp = _struct.pack(fmt, *vals)
        except _struct.error:
            exp = 'SE'
        try:
            got = _pack_model(fmt, *vals)
        except _struct.error:
            got = 'SE'
        n += 1
        if exp != got:
            errs.append(('pack', fmt, vals, exp, got))
    for fmt, data in (('!H', b'\x01\x02'), ('!Q', bytes(range(8))), ('!H', b'\x01'), ('!Q', b'1234567'),
                      ('!BH', b'\xff\x00\x7e')):
        try:
            exp = _struct.unpack(fmt, data)
        except _struct.error:
            exp = 'SE'
        try:
            got = _unpack_model(fmt, data)
        except _struct.error:
            got = 'SE'
        n += 1
        if exp != got:
            errs.append(('unpack', fmt, data, exp, got))
    for L in range(0, 8):
        for tup in itertools.product('/.a', repeat=L):
            p = ''.join(tup)
            n += 1
            if _normpath_model(p) != _real_normpath(p):
                errs.append(('normpath', p, _normpath_model(p), _real_normpath(p)))
    return n, errs


def selftest_symbolic():
    """Models that only exist on CrossHair's symbolic containers (bytes.split, decode(backslashreplace)):
    differential test against CPython inside a stand-alone state space (~5 s)."""
    import itertools
    from crosshair.core_and_libs import standalone_statespace
    n = 0
    errs = []
    with standalone_statespace:
        for L in range(0, 5):
            for tup in itertools.product(b'a\r\n :', repeat=L):
                s = bytes(tup)
                for sep, mx in ((b'\r\n', 1), (b' ', 2), (b':', 1), (b':', 2), (None, -1), (None, 1), (b'://', 1)):
                    with NoTracing():
                        sb = B.SymbolicBytes(list(s))
                    got = sb.split(sep, mx)
                    with NoTracing():
                        got = [bytes(B.realize(x)) if not isinstance(x, bytes) else x for x in got]
                    n += 1
                    if got != s.split(sep, mx):
                        errs.append(('split', s, sep, mx, got))
        for L in range(0, 4):
            for tup in itertools.product([0x41, 0x80, 0xc3, 0xa9, 0xff, 0xe2, 0x82, 0xac, 0xf0, 0x7f], repeat=L):
                s = bytes(tup)
                with NoTracing():
                    sb = B.SymbolicBytes(list(s))
                got = sb.decode('utf-8', 'backslashreplace')
                with NoTracing():
                    got = B.realize(got)
                n += 1
                if got != s.decode('utf-8', 'backslashreplace'):
                    errs.append(('decode', s, got))
    return n, errs
