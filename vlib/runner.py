"""Aggregator: runs all obligations of one property in parallel worker processes,
replays counterexamples natively, applies known findings, writes evidence, prints
VIOLATION / KNOWN-FINDING lines and sets the exit code (DESIGN §1.1, §1.5).

exit 0: every explored obligation held (or only listed known findings failed)
exit 1: a replay-confirmed violation that known_findings.json does not list
exit 2: harness error (vacuous obligation, non-reproducing counterexample, model
        self-test failure, worker crash) -- never reported as VIOLATION
"""
import hashlib
import importlib
import json
import os
import re
import select
import subprocess
import sys
import time

HERE = os.path.dirname(os.path.abspath(__file__))
ROOT = os.path.dirname(HERE)
REPO = os.environ.get('VERIF_REPO', '/repo')
PY = os.path.join(ROOT, '.venv', 'bin', 'python')
DRIVER = os.path.join(HERE, 'driver.py')
sys.path.insert(0, ROOT)
sys.path.insert(0, REPO)


def log(*a):
    print(*a, file=sys.stderr, flush=True)


class Worker:
    def __init__(self):
        env = dict(os.environ)
        env['PYTHONHASHSEED'] = '0'
        self.p = subprocess.Popen([PY, DRIVER, '--serve'], stdin=subprocess.PIPE, stdout=subprocess.PIPE,
                                  stderr=subprocess.DEVNULL if not os.environ.get('VERIF_DEBUG') else None,
                                  text=True, env=env, cwd=ROOT)
        self.job = None
        self.started = 0.0
        self.served = 0

    def submit(self, ob):
        self.job = ob
        self.started = time.time()
        self.p.stdin.write(json.dumps(ob) + '\n')
        self.p.stdin.flush()

    def kill(self):
        try:
            self.p.kill()
            self.p.wait(timeout=5)
        except Exception:
            pass


def run_pool(obs, jobs, known=()):
    """Run obligations on a pool of serve-mode workers; yields (ob, result)."""
    pending = list(obs)
    pending.reverse()
    workers = []
    results = []
    maxserve = int(os.environ.get('VERIF_WORKER_RECYCLE', '60'))
    stop_after = int(os.environ.get('VERIF_STOP_AFTER', '8'))
    nrefuted = 0
    while pending or any(w.job for w in workers):
        # fill
        for w in list(workers):
            if w.job is None and (w.served >= maxserve or w.p.poll() is not None):
                w.kill()
                workers.remove(w)
        while pending and (len([w for w in workers if w.job]) < jobs):
            idle = [w for w in workers if w.job is None]
            w = idle[0] if idle else None
            if w is None:
                w = Worker()
                workers.append(w)
            w.submit(pending.pop())
        busy = [w for w in workers if w.job]
        if not busy:
            continue
        rl, _, _ = select.select([w.p.stdout for w in busy], [], [], 1.0)
        now = time.time()
        for w in busy:
            if w.p.stdout in rl:
                line = w.p.stdout.readline()
                if not line:
                    results.append((w.job, {'status': 'HARNESS_ERROR', 'error': 'worker died'}))
                    w.job = None
                    w.kill()
                    workers.remove(w)
                    continue
                try:
                    res = json.loads(line)
                except Exception:
                    res = {'status': 'HARNESS_ERROR', 'error': 'bad worker output: ' + line[:200]}
                results.append((w.job, res))
                if res.get('status') == 'REFUTED' and not w.job.get('twin') and \
                        not any(re.search(f['obligation'], w.job.get('name', '')) for f in known):
                    nrefuted += 1
                    if nrefuted >= stop_after and pending:
                        # enough counterexamples to report: do not spend the rest of the budget on a tree that is already refuted
                        log('stopping early: %d obligations refuted, %d not run' % (nrefuted, len(pending)))
                        for ob_ in pending:
                            results.append((ob_, {'status': 'NOT_RUN', 'paths': 0, 'reached_end': 0}))
                        pending = []
                w.job = None
                w.served += 1
            elif now - w.started > w.job['timeout'] * 2.5 + 60:
                results.append((w.job, {'status': 'UNKNOWN', 'error': 'wall-clock kill', 'paths': 0,
                                        'reached_end': 0, 'solver_queries': 0, 'solver_time_s': 0}))
                w.job = None
                w.kill()
                workers.remove(w)
    for w in workers:
        try:
            w.p.stdin.close()
        except Exception:
            pass
        w.kill()
    return results


def native_replay(ob, args, trace=False, twin=False):
    env = dict(os.environ)
    if trace:
        env['VERIF_TRACE'] = '1'
    cmd = [PY, DRIVER, ob['module'], ob.get('replay_fn', ob['fn']), json.dumps(ob['cfg']), '0', '--native', json.dumps(args)]
    if twin:
        cmd.append('--twin')
    try:
        r = subprocess.run(cmd, capture_output=True, text=True, env=env, cwd=ROOT, timeout=300)
        return json.loads(r.stdout.strip().splitlines()[-1])
    except Exception as e:
        return {'returned': None, 'exception': None, 'reason': None, 'error': 'native replay failed: %r' % (e,)}


def preflight():
    """No function under /repo/proxy may carry a PEP316 contract (nested contracts
    silently mask failures, DESIGN §1.3)."""
    pat = re.compile(r'^\s*(pre|post|inv|raises)\s*:', re.M)
    bad = []
    for dp, dn, fn in os.walk(os.path.join(REPO, 'proxy')):
        for f in fn:
            if f.endswith('.py'):
                p = os.path.join(dp, f)
                try:
                    s = open(p, encoding='utf-8', errors='replace').read()
                except OSError:
                    continue
                if pat.search(s):
                    # only count when inside a docstring-looking block
                    for m in re.finditer(r'("""|\'\'\')(.*?)\1', s, re.S):
                        if pat.search(m.group(2)):
                            bad.append(p)
                            break
    return bad


def load_known(pid):
    p = os.path.join(ROOT, 'known_findings.json')
    if not os.path.exists(p):
        return []
    d = json.load(open(p))
    return [f for f in d.get('findings', []) if f['property'] == pid]


def match_known(known, obname, reason):
    for f in known:
        if re.search(f['obligation'], obname) and re.search(f['reason'], reason or ''):
            return f
    return None


def main():
    pid = sys.argv[1]
    tier = os.environ.get('VERIF_TIER', 'quick')
    if '--tier' in sys.argv:
        tier = sys.argv[sys.argv.index('--tier') + 1]
    only = None
    if '--only' in sys.argv:
        only = re.compile(sys.argv[sys.argv.index('--only') + 1])
    seed = int(os.environ.get('VERIF_SEED', '0') or 0)
    jobs = int(os.environ.get('VERIF_JOBS', str(os.cpu_count() or 4)))
    t0 = time.time()
    modname = 'vlib.harness.' + pid.lower()
    evidence_path = os.path.join(os.environ.get('VERIF_EVIDENCE_DIR') or os.path.join(ROOT, 'evidence'), pid + '.json')
    os.makedirs(os.path.dirname(evidence_path), exist_ok=True)

    def harness_error(msg):
        log('HARNESS-ERROR property=%s %s' % (pid, msg))
        print('HARNESS-ERROR property=%s %s' % (pid, msg))
        sys.exit(2)

    bad = preflight()
    if bad:
        harness_error('PEP316 contracts found inside the repository (would mask failures): %s' % bad[:3])
    mod = importlib.import_module(modname)
    meta = getattr(mod, 'META', {})
    obs = mod.obligations(tier)
    if only:
        obs = [o for o in obs if only.search(o['name'])]
    import random
    rnd = random.Random(seed)
    for o in obs:
        o['module'] = modname
        o.setdefault('timeout', 120)
        if os.environ.get('VERIF_TIMEOUT_CAP'):
            o['timeout'] = min(o['timeout'], int(os.environ['VERIF_TIMEOUT_CAP']))
        o.setdefault('group', o['fn'])
    # seed only permutes scheduling order
    order = list(obs)
    rnd.shuffle(order)
    order.sort(key=lambda o: -o['timeout'])
    # model self-test (native, cheap) in a subprocess with the venv interpreter
    st = subprocess.run([PY, '-c', 'import sys; sys.path.insert(0, %r); from vlib import plugin; n, e = plugin.selftest(); n2, e2 = plugin.selftest_symbolic(); n += n2; e += e2; '
                         'print(n, len(e)); print(e[:3])' % ROOT], capture_output=True, text=True, cwd=ROOT)
    if st.returncode != 0 or st.stdout.split()[1:2] != ['0']:
        harness_error('model self-test failed: %s %s' % (st.stdout[-300:], st.stderr[-300:]))
    model_tests = int(st.stdout.split()[0])
    if hasattr(mod, 'selftest'):
        stm = subprocess.run([PY, '-c', 'import sys; sys.path.insert(0, %r); sys.path.insert(0, %r); import %s as m; '
                              'r = m.selftest(); print(r)' % (ROOT, REPO, modname)], capture_output=True, text=True, cwd=ROOT)
        if stm.returncode != 0:
            harness_error('harness oracle self-test failed: %s' % (stm.stdout[-500:] + stm.stderr[-800:]))
        log('oracle selftest:', stm.stdout.strip()[-200:])
    # twins: one representative per group
    twins = []
    seen = set()
    for o in obs:
        if o['group'] not in seen and o.get('kind') != 'concrete':
            seen.add(o['group'])
            t = dict(o)
            t['twin'] = True
            t['name'] = o['name'] + '#twin'
            twins.append(t)
    log('[%s/%s] %d obligations (+%d reachability twins) on %d workers' % (pid, tier, len(obs), len(twins), jobs))
    results = run_pool(twins + order, jobs, load_known(pid))
    if os.environ.get('VERIF_DUMP'):
        os.makedirs(os.path.join(ROOT, '.scratch'), exist_ok=True)
        json.dump(results, open(os.path.join(ROOT, '.scratch', pid + ('-seed' if os.environ.get('VERIF_REPO') else '') + '-results.json'), 'w'))

    known = load_known(pid)
    cov = {'evaluations': 0, 'distinct_nontrivial': 0, 'obligations': len(obs), 'discharged': 0,
           'inconclusive': 0, 'solver_queries': 0, 'solver_time_s': 0.0, 'solver_unknown': 0}
    violations = []
    known_hit = []
    inconclusive = []
    samples = []
    functions = set()
    herrs = []
    by_status = {}
    vacuous_twins = []
    twin_errs = []
    main_status = {}
    replay_root = os.environ.get('VERIF_REPLAY_DIR') or os.path.join(ROOT, 'replays')
    os.makedirs(os.path.join(replay_root, pid), exist_ok=True)
    for ob, res in results:
        status = res.get('status')
        cov['solver_queries'] += res.get('solver_queries', 0) or 0
        cov['solver_time_s'] += res.get('solver_time_s', 0) or 0
        cov['solver_unknown'] += res.get('solver_unknown', 0) or 0
        if ob.get('twin'):
            if status == 'REFUTED':
                args = next((m['args'] for m in res['messages'] if m.get('args') is not None), None)
                if args is None:
                    twin_errs.append((ob['name'][:-5], 'twin %s: counterexample args not parseable: %s' % (ob['name'], res['messages'])))
                    continue
                nat = native_replay(ob, args, trace=True, twin=True)
                if nat.get('returned') is not False and (nat.get('reason') or nat.get('exception')):
                    # The solver-generated witness FAILS the property when run natively although the symbolic run passed it: the
                    # engine executes some construct differently from CPython (e.g. functools caches are bypassed under tracing, so
                    # state carried in a cache is invisible symbolically). The native run is the real code: confirm without the
                    # twin flag and report it as a violation with its replay file.
                    mob = dict(ob, twin=False, name=ob['name'][:-5])
                    nat2 = native_replay(mob, args)
                    if (nat2.get('returned') is False) or nat2.get('exception'):
                        reason = nat2.get('reason') or ('exception: %s' % nat2.get('exception'))
                        digest = hashlib.sha1(json.dumps([mob['name'], args], sort_keys=True).encode()).hexdigest()[:10]
                        kf = match_known(known, mob['name'], reason)
                        rp = os.path.join(replay_root, pid, ('known-' if kf else '') + re.sub(r'[^A-Za-z0-9_.-]', '_', mob['name']) + '-' + digest + '.json')
                        json.dump({'property': pid, 'obligation': mob['name'], 'module': mob['module'], 'fn': mob.get('replay_fn', mob['fn']),
                                   'cfg': mob['cfg'], 'args': args, 'observed': nat2,
                                   'crosshair_message': 'witness of the reachability twin; fails only natively (engine/native divergence)',
                                   'replay_cmd': './vcheck replay ' + os.path.relpath(rp, ROOT)}, open(rp, 'w'), indent=1)
                        if kf:
                            known_hit.append((kf, mob['name'], reason, rp))
                        else:
                            violations.append((mob['name'], reason + ' [native run of a solver-generated witness]', rp, args))
                        continue
                if nat.get('returned') is not False:
                    # twin sample must reach the end natively too
                    twin_errs.append((ob['name'][:-5], 'twin %s: sample %s does not reach the final assertion natively (%s)' % (ob['name'], args, nat)))
                    continue
                functions.update(nat.get('functions', []))
                if len(samples) < 12:
                    samples.append({'obligation': ob['name'][:-5], 'cfg': ob['cfg'], 'args': args,
                                    'note': 'reachability-twin witness: reaches the final assertion'})
            elif status == 'CONFIRMED':
                vacuous_twins.append(ob['name'][:-5])
            elif status == 'HARNESS_ERROR':
                twin_errs.append((ob['name'][:-5], 'twin %s: %s' % (ob['name'], res.get('error', '')[-600:])))
            else:
                inconclusive.append(ob['name'])
            continue
        if status == 'REFUTED' and not any(m['state'] in ('POST_FAIL', 'EXEC_ERR', 'POST_ERR') for m in res.get('messages', [])):
            # e.g. PRE_UNSAT because every path hit the time budget: inconclusive, never a verdict
            status = 'UNKNOWN'
        by_status[status] = by_status.get(status, 0) + 1
        main_status[ob['name']] = status
        cov['evaluations'] += res.get('paths', 0) or 0
        cov['concrete_vectors'] = cov.get('concrete_vectors', 0) + (res.get('concrete_vectors', 0) or 0)
        cov['translator_validation_cases'] = cov.get('translator_validation_cases', 0) + (res.get('validated', 0) or 0)
        cov['distinct_nontrivial'] += res.get('reached_end', 0) or 0
        if status == 'CONFIRMED':
            if not res.get('reached_end'):
                herrs.append('vacuous: %s confirmed without reaching its final assertion' % ob['name'])
            else:
                cov['discharged'] += 1
        elif status == 'REFUTED':
            msgs = [m for m in res['messages'] if m['state'] in ('POST_FAIL', 'EXEC_ERR', 'POST_ERR')]
            args = next((m['args'] for m in msgs if m.get('args') is not None), None)
            if args is None:
                herrs.append('%s: counterexample args not parseable: %s' % (ob['name'], res['messages']))
                continue
            nat = native_replay(ob, args)
            reproduced = (nat.get('returned') is False) or bool(nat.get('exception'))
            if not reproduced:
                herrs.append('%s: counterexample %s does not reproduce natively (model/stub error): %s' % (ob['name'], args, nat))
                continue
            reason = nat.get('reason') or ('exception: %s' % nat.get('exception'))
            digest = hashlib.sha1(json.dumps([ob['name'], args], sort_keys=True).encode()).hexdigest()[:10]
            kf = match_known(known, ob['name'], reason)
            rp = os.path.join(replay_root, pid, ('known-' if kf else '') + re.sub(r'[^A-Za-z0-9_.-]', '_', ob['name']) + '-' + digest + '.json')
            json.dump({'property': pid, 'obligation': ob['name'], 'module': ob['module'], 'fn': ob.get('replay_fn', ob['fn']), 'cfg': ob['cfg'],
                       'args': args, 'observed': nat, 'crosshair_message': msgs[0]['message'] if msgs else None,
                       'replay_cmd': './vcheck replay ' + os.path.relpath(rp, ROOT)}, open(rp, 'w'), indent=1)
            if kf:
                known_hit.append((kf, ob['name'], reason, rp))
                cov['masked_by_known_findings'] = cov.get('masked_by_known_findings', 0) + 1
            else:
                violations.append((ob['name'], reason, rp, args))
        elif status == 'HARNESS_ERROR':
            herrs.append('%s: %s' % (ob['name'], res.get('error', '')[-800:]))
        elif status == 'NOT_RUN':
            cov['not_run_after_violations'] = cov.get('not_run_after_violations', 0) + 1
        else:
            cov['inconclusive'] += 1
            inconclusive.append(ob['name'])

    for nm, msg in twin_errs:
        if main_status.get(nm) == 'CONFIRMED':
            herrs.append(msg)
    for nm in vacuous_twins:
        # a twin that cannot reach the end is an error only if the obligation itself claims success
        if main_status.get(nm) == 'CONFIRMED':
            herrs.append('vacuous: no input reaches the final assertion of %s' % nm)
    wall = time.time() - t0
    cov['solver_time_s'] = round(cov['solver_time_s'], 2)
    cov['rule'] = ('one case = one path symbolically executed through harness + real code (inputs on that path are '
                   'solver variables, z3 decides every branch and the final assertion); non-trivial = the path reached '
                   'the harness\'s final assertion (paths that leave the template early are not counted); paths are '
                   'distinct by construction (they differ in at least one branch decision)')
    cov['samples'] = samples or [{'note': 'no twin witness captured'}]
    cov['exhaustive'] = (cov['discharged'] == cov['obligations'] and not herrs)
    cov['functions_encoded'] = sorted(functions)
    cov['status_counts'] = by_status
    cov['inconclusive_obligations'] = inconclusive[:50]
    cov['known_findings_hit'] = [{'what': k['what'], 'obligation': n, 'reason': r} for k, n, r, _ in known_hit][:50]
    cov['model_selftest_cases'] = model_tests
    cov['bounds'] = meta.get('bounds', {}).get(tier, meta.get('bounds'))
    cov['outside_bounds'] = meta.get('outside')
    cov['engine'] = 'CrossHair 0.0.110 symbolic execution of /repo bytecode on z3 %s; per-obligation verdict = CONFIRMED over all paths' % _z3v()
    ev = {'property_id': pid, 'tier': tier, 'seed': seed, 'level': 'model_checking', 'coverage': cov,
          'assumptions': meta.get('stubs', []), 'wall_s': round(wall, 1), 'violations': len(violations)}
    if cov['distinct_nontrivial'] < 2:
        herrs.append('fewer than 2 non-trivial paths explored')
    json.dump(ev, open(evidence_path, 'w'), indent=1)
    seen_k = set()
    for k, n, r, rp in known_hit:
        if k['what'] not in seen_k:
            seen_k.add(k['what'])
            print('KNOWN-FINDING: property=%s %s (e.g. obligation %s: %s)' % (pid, k['what'], n, r))
    log('[%s/%s] %s in %.0fs: discharged %d/%d, inconclusive %d, paths %d (non-trivial %d), solver %d queries %.1fs'
        % (pid, tier, by_status, wall, cov['discharged'], cov['obligations'], cov['inconclusive'], cov['evaluations'],
           cov['distinct_nontrivial'], cov['solver_queries'], cov['solver_time_s']))
    if violations:
        for n, r, rp, a in violations[:20]:
            print('VIOLATION property=%s replay=%s' % (pid, rp))
            log('  %s: %s args=%s' % (n, r, a))
        for h in herrs[:5]:
            log('HARNESS-ERROR (in addition)', h[:300])
        sys.exit(1)
    if herrs:
        for h in herrs[:10]:
            log('HARNESS-ERROR', h)
        print('HARNESS-ERROR property=%s %d harness errors (first: %s)' % (pid, len(herrs), herrs[0][:400]))
        sys.exit(2)
    print('OK property=%s tier=%s obligations=%d discharged=%d inconclusive=%d known=%d wall=%.0fs'
          % (pid, tier, cov['obligations'], cov['discharged'], cov['inconclusive'], len(seen_k), wall))
    sys.exit(0)


def _z3v():
    try:
        r = subprocess.run([PY, '-c', 'import z3; print(z3.get_version_string())'], capture_output=True, text=True)
        return r.stdout.strip()
    except Exception:
        return '?'


def replay_main():
    path = sys.argv[2]
    d = json.load(open(path))
    ob = {'module': d['module'], 'fn': d['fn'], 'cfg': d['cfg']}
    nat = native_replay(ob, d['args'])
    print(json.dumps(nat, indent=1))
    bad = (nat.get('returned') is False) or bool(nat.get('exception'))
    print('REPRODUCED' if bad else 'NOT-REPRODUCED')
    sys.exit(1 if bad else 0)


if __name__ == '__main__':
    if sys.argv[1] == 'replay':
        replay_main()
    else:
        main()
