#!/bin/bash
# usage: vlib/reseed.sh <seed-name> <property ids...>
# Re-runs checks against a seeded change applied on top of /repo's CURRENT HEAD (scratch worktree /tmp/wt/head),
# and records the outcome under "recheck" in /verif/seeded/<seed-name>/meta.json
NAME=$1; shift
OUT=/verif/seeded/$NAME
WT=${RESEED_WT:-/tmp/wt/head}
cd $WT || exit 9
git checkout -q -- . ; git checkout -q --detach $(git -C /repo rev-parse HEAD)
git apply $OUT/patch.diff || { echo "$NAME: patch does not apply on HEAD"; exit 9; }
RES=""
for P in "$@"; do
  (cd ${VERIF_HOME:-/verif} && VERIF_REPO=$WT VERIF_EVIDENCE_DIR=$OUT/recheck VERIF_REPLAY_DIR=$OUT/recheck/replays ./vcheck $P --tier quick > $OUT/recheck_$P.log 2>&1); RC=$?
  RES="$RES \"$P\": $RC,"
done
git checkout -q -- .
python3 - <<PY
import json
p = "$OUT/meta.json"
d = json.load(open(p))
r = d.get("recheck", {})
r.update({${RES%,}})
d["recheck"] = r
d["recheck_note"] = "checks re-run after strengthening, against the patch applied on /repo HEAD $(git -C /repo rev-parse --short HEAD) (exit 1 = detected)"
json.dump(d, open(p, "w"), indent=1)
PY
echo "$NAME recheck {${RES%,}}"
