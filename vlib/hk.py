"""Harness kit: conventions shared by all harness functions (DESIGN §1.2).

A harness entry function
  * has only ``int`` parameters (symbolic values) and a PEP316 docstring ``post: _``
  * reads its concrete *shape* (lengths, cut positions, template ids...) from ``CFG``
  * ends with ``return ok()`` when the final assertion was reached and held,
    ``return fail(reason, ...)`` when the property is violated,
    ``return skip()`` when the symbolic input falls outside the template.

``TWIN`` turns the function into its reachability twin: ``ok()`` returns False and
``fail()`` returns True, so CrossHair must produce an input that reaches the end.
"""
import os as _os
_DEBUG = bool(_os.environ.get('VERIF_DEBUG_FAIL'))
CFG = {}
TWIN = False
STATS = {'calls': 0, 'reached': 0, 'failed': 0, 'skipped': 0}
LAST = {'reason': None, 'detail': None}


def begin():
    STATS['calls'] += 1
    LAST['reason'] = None
    LAST['detail'] = None


def ok():
    STATS['reached'] += 1
    return not TWIN


def fail(reason, **detail):
    STATS['failed'] += 1
    if _DEBUG:
        import sys
        print('FAIL', reason, {k: str(v)[:300] for k, v in detail.items()}, file=sys.stderr)
    LAST['reason'] = reason
    LAST['detail'] = detail
    return bool(TWIN)


def skip():
    STATS['skipped'] += 1
    return True


def run(coro):
    """Drive a proxy.py coroutine to completion. None of them ever suspends
    (every await is on another proxy.py coroutine); a suspension is a harness error."""
    try:
        coro.send(None)
    except StopIteration as e:
        return e.value
    raise RuntimeError('harness-error: coroutine suspended')


def B(*ints):
    """Concrete-length bytes from (possibly symbolic) ints."""
    return bytes(list(ints))


def cat(parts):
    """Concatenate a list of memoryview/bytes without bytes(mv) (which realises)."""
    out = b''
    for p in parts:
        out = out + (p.tobytes() if isinstance(p, memoryview) else p)
    return out


class _Null:
    def __enter__(self):
        return self

    def __exit__(self, *a):
        return False


def concrete():
    """Context manager: run a purely concrete setup prefix natively (CrossHair's
    opcode tracing switched off). Only for code that touches no symbolic value; the
    semantics are identical, it is just ~50x faster than traced execution."""
    try:
        from crosshair.tracers import NoTracing, is_tracing
    except Exception:
        return _Null()
    if is_tracing():
        return NoTracing()
    return _Null()
