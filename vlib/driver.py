"""Runs ONE obligation (one contracted harness function with a concrete shape) under
CrossHair and prints a JSON result on the last line of stdout.

usage: driver.py <harness module> <function> <cfg json> <per_condition_timeout_s> [--twin] [--native <args json>]

``--native`` executes the harness function natively (no CrossHair, no models) on the
given argument list: used to replay counterexamples against the real code.
"""
import collections
import importlib
import json
import os
import re
import sys
import time
import traceback

HERE = os.path.dirname(os.path.abspath(__file__))
ROOT = os.path.dirname(HERE)
REPO = os.environ.get('VERIF_REPO', '/repo')
sys.path.insert(0, ROOT)
sys.path.insert(0, REPO)
os.environ.setdefault('PROXY_PY_VERIF', '1')


def _args_from_message(msg, fn):
    """Extract the concrete argument list CrossHair prints ("when calling f(1, 2)")."""
    import inspect
    m = re.search(r'when calling \w+\((.*?)\)(?: \(which | with crosshair\.|$)', msg, re.S)
    if not m:
        return None
    params = list(inspect.signature(fn).parameters)
    try:
        def cap(*a, **k):
            return a, k
        a, k = eval('cap(' + m.group(1) + ')', {'cap': cap, '__builtins__': {}}, {'True': True, 'False': False})
    except Exception:
        return None
    vals = list(a)
    for p in params[len(vals):]:
        if p in k:
            vals.append(k[p])
        else:
            return None
    return [int(v) for v in vals]


def native(mod, fn, cfg, args, twin=False):
    from vlib import hk
    hk.CFG.clear()
    hk.CFG.update(cfg)
    hk.TWIN = twin
    f = getattr(mod, fn)
    traced = set()
    repo_prefix = os.path.join(os.path.realpath(REPO), 'proxy') + os.sep

    def tracer(frame, event, arg):
        if event == 'call':
            co = frame.f_code
            fnm = co.co_filename
            if fnm.startswith(repo_prefix):
                traced.add(fnm[len(repo_prefix):] + ':' + co.co_qualname)
        return None
    want_trace = os.environ.get('VERIF_TRACE') == '1'
    if want_trace:
        sys.settrace(tracer)
    try:
        try:
            r = f(*args)
            exc = None
        except Exception as e:  # noqa
            r = None
            exc = ''.join(traceback.format_exception_only(type(e), e)).strip() + ' @ ' + \
                  ' <- '.join('%s:%d' % (os.path.basename(fr.filename), fr.lineno)
                              for fr in traceback.extract_tb(e.__traceback__)[-4:][::-1])
    finally:
        sys.settrace(None)
    det = hk.LAST['detail']
    return {'returned': r, 'exception': exc, 'reason': hk.LAST['reason'],
            'detail': json.loads(json.dumps(det, default=repr)) if det is not None else None,
            'functions': sorted(traced)}


def analyze(modname, fn, cfg, timeout, twin):
    from vlib import plugin
    from vlib import hk
    from crosshair import core
    from crosshair.options import AnalysisKind, AnalysisOptionSet

    ct = {}
    if not hasattr(core, '_verif_orig_act'):
        core._verif_orig_act = core.analyze_calltree
    _orig_act = core._verif_orig_act

    def _act(options, conditions):
        r = _orig_act(options, conditions)
        ct['status'] = r.verification_status.name
        ct['confirmed_paths'] = r.num_confirmed_paths
        return r
    core.analyze_calltree = _act
    mod = importlib.import_module(modname)
    hk.CFG.clear()
    hk.CFG.update(cfg)
    hk.TWIN = twin
    for k in hk.STATS:
        hk.STATS[k] = 0
    q0, t0s, u0 = plugin.SOLVER['queries'], plugin.SOLVER['time_s'], plugin.SOLVER['unknown']
    f = getattr(mod, fn)
    stats = collections.Counter()
    opts = AnalysisOptionSet(
        analysis_kind=(AnalysisKind.PEP316,), per_condition_timeout=float(timeout),
        per_path_timeout=float(os.environ.get('VERIF_PATH_TIMEOUT', '60')),
        max_uninteresting_iterations=10 ** 9, report_all=True, stats=stats)
    t0 = time.time()
    c0 = time.process_time()
    msgs = core.run_checkables(core.analyze_function(f, opts))
    res = {
        'module': modname, 'fn': fn, 'cfg': cfg, 'twin': twin,
        'wall_s': round(time.time() - t0, 2), 'cpu_s': round(time.process_time() - c0, 2),
        'status': ct.get('status'), 'confirmed_paths': ct.get('confirmed_paths'),
        'paths': hk.STATS['calls'], 'reached_end': hk.STATS['reached'], 'skipped': hk.STATS['skipped'],
        'solver_queries': plugin.SOLVER['queries'] - q0, 'solver_time_s': round(plugin.SOLVER['time_s'] - t0s, 3),
        'solver_unknown': plugin.SOLVER['unknown'] - u0,
        'ch_paths': stats.get('num_paths', 0),
        'messages': [],
    }
    for x in msgs:
        res['messages'].append({'state': x.state.name, 'message': x.message[:2000], 'line': x.line,
                                'args': _args_from_message(x.message, f)})
    return res


def concrete_vectors(modname, fn, cfg, args_list, twin):
    """Plain native execution of a harness function on listed concrete vectors: used only where
    the code under test is C-backed or too slow to trace (NOT a solver claim; reported separately)."""
    mod = importlib.import_module(modname)
    t0 = time.time()
    c0 = time.process_time()
    bad = None
    n = 0
    for args in args_list:
        r = native(mod, fn, cfg, args, twin)
        n += 1
        if r['returned'] is not True:
            bad = args
            break
    return {'module': modname, 'fn': fn, 'cfg': cfg, 'twin': twin, 'wall_s': round(time.time() - t0, 2),
            'cpu_s': round(time.process_time() - c0, 2), 'status': 'REFUTED' if bad is not None else 'CONFIRMED',
            'confirmed_paths': 0, 'paths': n, 'reached_end': n, 'skipped': 0, 'solver_queries': 0, 'solver_time_s': 0,
            'solver_unknown': 0, 'ch_paths': 0, 'concrete_vectors': n,
            'messages': [{'state': 'POST_FAIL' if bad is not None else 'CONFIRMED', 'message': 'concrete vector', 'line': 0, 'args': bad}]}


def smt(modname, fn, cfg, twin):
    """Direct SMT obligation: the harness function builds z3 terms from the current source
    (vlib/kernel.py) and discharges queries itself. It returns
    {'status': CONFIRMED|REFUTED|UNKNOWN, 'args': [...], 'queries': n, 'validated': n}."""
    from vlib import plugin
    mod = importlib.import_module(modname)
    q0, t0s = plugin.SOLVER['queries'], plugin.SOLVER['time_s']
    t0 = time.time()
    c0 = time.process_time()
    r = getattr(mod, fn)(cfg, twin)
    res = {'module': modname, 'fn': fn, 'cfg': cfg, 'twin': twin, 'wall_s': round(time.time() - t0, 2),
           'cpu_s': round(time.process_time() - c0, 2), 'status': r['status'], 'confirmed_paths': 1,
           'paths': r.get('cases', 1), 'reached_end': r.get('cases', 1), 'skipped': 0,
           'solver_queries': plugin.SOLVER['queries'] - q0, 'solver_time_s': round(plugin.SOLVER['time_s'] - t0s, 3),
           'solver_unknown': 0, 'ch_paths': 0, 'validated': r.get('validated', 0),
           'messages': [{'state': 'POST_FAIL' if r['status'] == 'REFUTED' else r['status'], 'message': r.get('message', ''),
                         'line': 0, 'args': r.get('args')}]}
    return res


def main():
    if sys.argv[1] == '--serve':
        # worker mode: one JSON obligation per stdin line -> one JSON result per stdout line
        out = sys.stdout
        sys.stdout = sys.stderr     # anything the analysed code prints must not corrupt the protocol
        for line in sys.stdin:
            line = line.strip()
            if not line:
                continue
            ob = json.loads(line)
            try:
                if ob.get('kind') == 'concrete':
                    res = concrete_vectors(ob['module'], ob['fn'], ob['cfg'], ob['args_list'], ob.get('twin', False))
                elif ob.get('kind') == 'smt':
                    res = smt(ob['module'], ob['fn'], ob['cfg'], ob.get('twin', False))
                else:
                    res = analyze(ob['module'], ob['fn'], ob['cfg'], ob['timeout'], ob.get('twin', False))
            except Exception as e:
                res = {'status': 'HARNESS_ERROR', 'error': ''.join(traceback.format_exception(type(e), e, e.__traceback__))[-3000:]}
            res['name'] = ob.get('name')
            out.write(json.dumps(res) + '\n')
            out.flush()
        return
    modname, fn, cfg_json, timeout = sys.argv[1:5]
    twin = '--twin' in sys.argv
    cfg = json.loads(cfg_json)
    if '--native' in sys.argv:
        args = json.loads(sys.argv[sys.argv.index('--native') + 1])
        mod = importlib.import_module(modname)
        out = native(mod, fn, cfg, args, twin)
        print(json.dumps(out))
        return
    print(json.dumps(analyze(modname, fn, cfg, timeout, twin)))


if __name__ == '__main__':
    main()
