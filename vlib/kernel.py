"""AST -> z3 translator for small integer/bitwise kernels CrossHair cannot keep symbolic
(DESIGN §1.4). The function source is read from the CURRENT tree on every run.

Supported subset: Assign / AugAssign / Return / If / Expr / Pass / Assert(ignored) / For over range(<concrete>),
BinOp | & ^ << >> + - * % //, Compare chains, BoolOp, Not, IfExp, bool(x), int constants, True/False/None,
names, self.<attr> load/store, subscripts with concrete index into Python lists of terms, len() of such lists,
bytearray(x)/bytes(x) as list copy. Anything else raises Unsupported (a harness error, not a pass).
"""
import ast
import inspect
import textwrap

import z3


class Unsupported(Exception):
    pass


class _Return(Exception):
    def __init__(self, v):
        self.v = v


def _is_z3(x):
    return isinstance(x, z3.ExprRef)


def _to_bool(x):
    if isinstance(x, bool):
        return z3.BoolVal(x)
    if _is_z3(x):
        if z3.is_bool(x):
            return x
        return x != 0
    if isinstance(x, int):
        return z3.BoolVal(x != 0)
    if x is None:
        return z3.BoolVal(False)
    raise Unsupported('truthiness of %r' % (x,))


def _to_num(x, like=None):
    """bool terms used arithmetically -> 0/1 of the same sort as `like`."""
    if _is_z3(x) and z3.is_bool(x):
        if like is not None and _is_z3(like) and z3.is_bv(like):
            return z3.If(x, z3.BitVecVal(1, like.size()), z3.BitVecVal(0, like.size()))
        return z3.If(x, 1, 0)
    if isinstance(x, bool):
        return int(x)
    return x


class Interp:
    def __init__(self, fn, width=None):
        src = textwrap.dedent(inspect.getsource(fn))
        self.tree = ast.parse(src).body[0]
        self.width = width
        self.fn = fn
        self.side = []       # side conditions (e.g. no overflow of the chosen width)

    def call(self, args, self_attrs=None):
        """Symbolically execute; returns (return_value, self_attrs). Path conditions are folded with z3.If."""
        params = [a.arg for a in self.tree.args.args]
        env = {}
        if params and params[0] == 'self':
            env['self'] = self_attrs if self_attrs is not None else {}
            params = params[1:]
        for p, a in zip(params, args):
            env[p] = a
        rv = self._block(self.tree.body, env)
        return rv, env.get('self')

    # statements ---------------------------------------------------------------
    def _block(self, stmts, env):
        for i, st in enumerate(stmts):
            r = self._stmt(st, env, stmts[i + 1:])
            if r is _FORKED:
                return _NORET       # both continuations (including the rest of this block) were executed and merged
            if r is not _NORET:
                return r
        return _NORET

    def _stmt(self, st, env, rest):
        if isinstance(st, ast.Return):
            return self._expr(st.value, env) if st.value is not None else None
        if isinstance(st, (ast.Pass, ast.Assert)):
            return _NORET
        if isinstance(st, ast.Expr):
            if isinstance(st.value, ast.Constant):
                return _NORET      # docstring
            self._expr(st.value, env)
            return _NORET
        if isinstance(st, ast.Assign):
            v = self._expr(st.value, env)
            for t in st.targets:
                self._store(t, v, env)
            return _NORET
        if isinstance(st, ast.AugAssign):
            cur = self._expr(_load(st.target), env)
            v = self._binop(st.op, cur, self._expr(st.value, env))
            self._store(st.target, v, env)
            return _NORET
        if isinstance(st, ast.If):
            c = self._expr(st.test, env)
            if isinstance(c, bool) or c is None or isinstance(c, int):
                return self._block(st.body if c else st.orelse, env)
            c = _to_bool(c)
            c = z3.simplify(c)
            if z3.is_true(c):
                return self._block(st.body, env)
            if z3.is_false(c):
                return self._block(st.orelse, env)
            # fork: execute both continuations (branch + rest) and merge
            e1 = _copy_env(env)
            e2 = _copy_env(env)
            r1 = self._block(list(st.body) + list(rest), e1)
            r2 = self._block(list(st.orelse) + list(rest), e2)
            _merge_env(env, c, e1, e2)
            m = _merge(c, r1, r2)
            return _FORKED if m is _NORET else m
        if isinstance(st, ast.For):
            it = self._expr(st.iter, env)
            if not isinstance(it, range):
                raise Unsupported('for over non-range')
            for i in it:
                self._store(st.target, i, env)
                r = self._block(st.body, env)
                if r is not _NORET:
                    raise Unsupported('return inside loop')
            return _NORET
        raise Unsupported(ast.dump(st)[:80])

    def _store(self, t, v, env):
        if isinstance(t, ast.Name):
            env[t.id] = v
        elif isinstance(t, ast.Attribute) and isinstance(t.value, ast.Name) and t.value.id == 'self':
            env['self'][t.attr] = v
        elif isinstance(t, ast.Subscript):
            base = self._expr(t.value, env)
            idx = self._expr(t.slice, env)
            if not isinstance(base, list) or not isinstance(idx, int):
                raise Unsupported('subscript store')
            base[idx] = v
        else:
            raise Unsupported('store target')

    # expressions ----------------------------------------------------------------
    def _expr(self, e, env):
        if isinstance(e, ast.Constant):
            return e.value
        if isinstance(e, ast.Name):
            if e.id in env:
                return env[e.id]
            if e.id in ('True', 'False', 'None'):
                return {'True': True, 'False': False, 'None': None}[e.id]
            g = self.fn.__globals__
            if e.id in g and isinstance(g[e.id], (int, float)):
                return g[e.id]
            raise Unsupported('name %s' % e.id)
        if isinstance(e, ast.Attribute):
            if isinstance(e.value, ast.Name) and e.value.id == 'self':
                if e.attr in env['self']:
                    return env['self'][e.attr]
                raise Unsupported('self.%s unset' % e.attr)
            raise Unsupported('attribute')
        if isinstance(e, ast.BinOp):
            return self._binop(e.op, self._expr(e.left, env), self._expr(e.right, env))
        if isinstance(e, ast.UnaryOp):
            v = self._expr(e.operand, env)
            if isinstance(e.op, ast.Not):
                if _is_z3(v):
                    return z3.Not(_to_bool(v))
                return not v
            if isinstance(e.op, ast.USub):
                return -v
            raise Unsupported('unary')
        if isinstance(e, ast.BoolOp):
            vals = [self._expr(v, env) for v in e.values]
            if not any(_is_z3(v) for v in vals):
                r = vals[0]
                for v in vals[1:]:
                    r = (r and v) if isinstance(e.op, ast.And) else (r or v)
                return r
            bs = [_to_bool(v) for v in vals]
            return z3.And(*bs) if isinstance(e.op, ast.And) else z3.Or(*bs)
        if isinstance(e, ast.Compare):
            left = self._expr(e.left, env)
            parts = []
            for op, right in zip(e.ops, e.comparators):
                r = self._expr(right, env)
                parts.append(self._cmp(op, left, r))
                left = r
            if all(isinstance(p, bool) for p in parts):
                return all(parts)
            return z3.And(*[_to_bool(p) for p in parts])
        if isinstance(e, ast.IfExp):
            c = self._expr(e.test, env)
            if not _is_z3(c):
                return self._expr(e.body if c else e.orelse, env)
            a, b = self._expr(e.body, env), self._expr(e.orelse, env)
            if self.width and isinstance(a, int) and isinstance(b, int) and not isinstance(a, bool):
                a, b = z3.BitVecVal(a, self.width), z3.BitVecVal(b, self.width)
            return _merge(_to_bool(c), a, b)
        if isinstance(e, ast.Call):
            if isinstance(e.func, ast.Name):
                nm = e.func.id
                args = [self._expr(a, env) for a in e.args]
                if nm == 'bool':
                    return _to_bool(args[0]) if _is_z3(args[0]) else bool(args[0])
                if nm == 'len':
                    return len(args[0])
                if nm == 'range':
                    return range(*args)
                if nm in ('bytearray', 'bytes', 'list'):
                    return list(args[0])
                if nm == 'int':
                    return _to_num(args[0])
            raise Unsupported('call %s' % ast.dump(e.func)[:60])
        if isinstance(e, ast.Subscript):
            base = self._expr(e.value, env)
            idx = self._expr(e.slice, env)
            if isinstance(base, list) and isinstance(idx, int):
                return base[idx]
            raise Unsupported('subscript load')
        raise Unsupported(ast.dump(e)[:80])

    def _binop(self, op, a, b):
        a, b = _to_num(a, b), _to_num(b, a)
        if not _is_z3(a) and not _is_z3(b):
            return {ast.BitOr: lambda: a | b, ast.BitAnd: lambda: a & b, ast.BitXor: lambda: a ^ b,
                    ast.LShift: lambda: a << b, ast.RShift: lambda: a >> b, ast.Add: lambda: a + b,
                    ast.Sub: lambda: a - b, ast.Mult: lambda: a * b, ast.Mod: lambda: a % b,
                    ast.FloorDiv: lambda: a // b, ast.Div: lambda: a / b}[type(op)]()
        za = a if _is_z3(a) else None
        zb = b if _is_z3(b) else None
        ref = za if za is not None else zb
        if z3.is_bv(ref):
            w = ref.size()
            if not _is_z3(a):
                a = z3.BitVecVal(a, w)
            if not _is_z3(b):
                b = z3.BitVecVal(b, w)
            if isinstance(op, ast.BitOr):
                return a | b
            if isinstance(op, ast.BitAnd):
                return a & b
            if isinstance(op, ast.BitXor):
                return a ^ b
            if isinstance(op, ast.LShift):
                return a << b
            if isinstance(op, ast.RShift):
                return z3.LShR(a, b)
            if isinstance(op, ast.Add):
                return a + b
            if isinstance(op, ast.Sub):
                return a - b
            if isinstance(op, ast.Mult):
                return a * b
            if isinstance(op, ast.Mod):
                return z3.URem(a, b)
            if isinstance(op, ast.FloorDiv):
                return z3.UDiv(a, b)
            raise Unsupported('bv op')
        # Int / Real
        if isinstance(op, ast.Add):
            return a + b
        if isinstance(op, ast.Sub):
            return a - b
        if isinstance(op, ast.Mult):
            return a * b
        if isinstance(op, ast.Mod):
            return a % b
        if isinstance(op, ast.FloorDiv):
            return a / b if (z3.is_int(a) if _is_z3(a) else True) and (z3.is_int(b) if _is_z3(b) else True) else z3.ToInt(a / b)
        if isinstance(op, ast.Div):
            return z3.ToReal(a) / z3.ToReal(b) if _is_z3(a) and z3.is_int(a) else a / b
        raise Unsupported('int op %s' % type(op).__name__)

    def _cmp(self, op, a, b):
        a, b = _to_num(a, b), _to_num(b, a)
        if not _is_z3(a) and not _is_z3(b):
            return {ast.Eq: a == b, ast.NotEq: a != b, ast.Lt: a < b, ast.LtE: a <= b, ast.Gt: a > b,
                    ast.GtE: a >= b, ast.Is: a is b, ast.IsNot: a is not b}[type(op)]
        ref = a if _is_z3(a) else b
        if z3.is_bv(ref):
            w = ref.size()
            if not _is_z3(a):
                a = z3.BitVecVal(a, w)
            if not _is_z3(b):
                b = z3.BitVecVal(b, w)
            return {ast.Eq: lambda: a == b, ast.NotEq: lambda: a != b, ast.Lt: lambda: z3.ULT(a, b),
                    ast.LtE: lambda: z3.ULE(a, b), ast.Gt: lambda: z3.UGT(a, b), ast.GtE: lambda: z3.UGE(a, b)}[type(op)]()
        return {ast.Eq: lambda: a == b, ast.NotEq: lambda: a != b, ast.Lt: lambda: a < b, ast.LtE: lambda: a <= b,
                ast.Gt: lambda: a > b, ast.GtE: lambda: a >= b}[type(op)]()


_NORET = object()
_FORKED = object()


def _load(t):
    import copy
    t2 = copy.deepcopy(t)
    t2.ctx = ast.Load()
    return t2


def _copy_env(env):
    e = dict(env)
    if 'self' in e:
        e['self'] = dict(e['self'])
    for k, v in list(e.items()):
        if isinstance(v, list):
            e[k] = list(v)
    return e


def _merge(c, a, b):
    if a is _NORET and b is _NORET:
        return _NORET
    if a is _NORET or b is _NORET:
        raise Unsupported('return on one branch only')
    if a is b:
        return a
    if not _is_z3(a) and not _is_z3(b) and a == b and type(a) is type(b):
        return a
    if isinstance(a, bool) or isinstance(b, bool) or (_is_z3(a) and z3.is_bool(a)) or (_is_z3(b) and z3.is_bool(b)):
        return z3.If(c, _to_bool(a), _to_bool(b))
    if a is None or b is None:
        raise Unsupported('merge with None')
    ref = a if _is_z3(a) else b
    if _is_z3(ref) and z3.is_bv(ref):
        if not _is_z3(a):
            a = z3.BitVecVal(a, ref.size())
        if not _is_z3(b):
            b = z3.BitVecVal(b, ref.size())
    return z3.If(c, a, b)


def _merge_env(env, c, e1, e2):
    for k in set(e1) | set(e2):
        if k == 'self':
            s1, s2 = e1['self'], e2['self']
            for a in set(s1) | set(s2):
                if a in s1 and a in s2:
                    env['self'][a] = s1[a] if s1[a] is s2[a] else _merge(c, s1[a], s2[a])
            continue
        if k in e1 and k in e2:
            v1, v2 = e1[k], e2[k]
            if isinstance(v1, list) and isinstance(v2, list) and len(v1) == len(v2):
                env[k] = [x if x is y else _merge(c, x, y) for x, y in zip(v1, v2)]
            elif v1 is v2:
                env[k] = v1
            else:
                try:
                    env[k] = _merge(c, v1, v2)
                except Unsupported:
                    env.pop(k, None)


def prove(claim, assumptions=(), timeout_ms=60000):
    """Returns ('unsat', None) when `claim` holds under assumptions, ('sat', model) with a
    counterexample, or ('unknown', reason)."""
    s = z3.Solver()
    s.set('timeout', timeout_ms)
    for a in assumptions:
        s.add(a)
    s.add(z3.Not(claim))
    r = s.check()
    if str(r) == 'unsat':
        return 'unsat', None
    if str(r) == 'sat':
        return 'sat', s.model()
    return 'unknown', s.reason_unknown()
