#!/bin/bash
# Builds /verif/.venv offline: a venv of /venv's interpreter that sees /venv's
# site-packages (the repo's own deps) plus crosshair-tool + z3-solver from the
# local wheelhouse. Idempotent, flock'd. Nothing is fetched from a network.
set -e
cd "$(dirname "$0")"
VENV=/verif/.venv
[ "$(pwd)" != "/verif" ] && VENV="$(pwd)/.venv"
exec 9>"${VENV}.lock"
flock 9
if [ -x "$VENV/bin/python" ] && "$VENV/bin/python" -c 'import crosshair, z3, h11' 2>/dev/null; then
  exit 0
fi
rm -rf "$VENV"
/venv/bin/python -m venv "$VENV"
SP=$("$VENV/bin/python" -c 'import sysconfig; print(sysconfig.get_paths()["purelib"])')
echo "/venv/lib/python3.12/site-packages" > "$SP/overlay.pth"
PIP_NO_INDEX=1 "$VENV/bin/python" -m pip install -q --no-index --find-links /opt/veriftools/wheels crosshair-tool z3-solver >/dev/null
"$VENV/bin/python" -c 'import crosshair, z3; print("verif venv ready:", crosshair.__version__ if hasattr(crosshair,"__version__") else "crosshair", z3.get_version_string())'
